"""Lean obligations per property: modules to build (bridge + proofs) and theorem names to audit.

Kept apart from harness/props/cXX.py (oracles on the real library) and harness/corr/cXX.py
(model-vs-implementation correspondence)."""

_LEVEL_NOTE = ("Trusted: Lean 4.33 kernel; axioms propext/Classical.choice/Quot.sound only (audited per theorem on every run); "
               "translator/extract.py (GfaGen regenerated from /repo on every run); harness, canonicaliser and python oracle. "
               "The model is hand-written: theorems are about the model; the tie to the code is exact table/regex extraction "
               "(Bridge lemmas) plus bounded differential correspondence.")

SPEC = {
    "C01": {
        "LEAN": {"modules": ["GfaProofs.Bridge.Regex", "GfaProofs.Lemmas.CigarText", "GfaProofs.C20", "GfaProofs.C01", "GfaProofs.C01Doc"],
                 "support": ["GfaProofs.Lemmas.Digits", "GfaModel.Field", "GfaModel.Line", "GfaModel.DocOrder"],
                 "theorems": ["Gfa.C01Doc.writeOrder_sorted", "Gfa.C01.splitOn_intercalate", "Gfa.C01.intercalate_splitOn", "Gfa.C01.tag_parse_print",
                              "Gfa.C01.line_parse_print", "Gfa.C01.write_fixed_point",
                              "Gfa.C01Doc.docOrder_perm", "Gfa.C01Doc.writeOrder_perm", "Gfa.C01Doc.writeOrder_group",
                              "Gfa.C01Doc.writeOrder_idem",
                              "Gfa.cigar_parse_print", "Gfa.aln_parse_print", "Gfa.natOf_digitsOf", "Gfa.intOf?_intStr",
                              "Gfa.C20.int_roundtrip", "Gfa.C20.str_roundtrip", "Gfa.C20.chr_roundtrip", "Gfa.C20.bytes_roundtrip",
                              "Gfa.Bridge.Regex.re_i", "Gfa.Bridge.Regex.re_Z", "Gfa.Bridge.Regex.re_A", "Gfa.Bridge.Regex.re_H",
                              "Gfa.Bridge.Regex.re_B", "Gfa.Bridge.Regex.re_f", "Gfa.Bridge.Regex.re_J"]},
        "ASSUMPTIONS": ["f and J payloads are opaque in the model (Python float formatting / json codec): their round trip is decided by the oracle only",
                        "the grouping of the written records by type is modelled (DocOrder.lean: a permutation, stable inside a group, a fixed point) and tied by the doc.order correspondence on record types; the other document-level normalisations (header split, complement links) are decided by the oracle",
                        "the text model of a line keeps spellings; gfapy writes eagerly parsed tags (i, f, J) canonically even at level 0, so the line.parse correspondence asks the model about the written text and the value comparison is the oracle's"],
    },
    "C02": {
        "LEAN": {"modules": ["GfaProofs.Bridge.Geometry", "GfaProofs.Bridge.Connect", "GfaProofs.C02", "GfaProofs.C02Rename", "GfaProofs.C05Edit"], "support": ["GfaModel.Graph", "GfaModel.GraphObs", "GfaModel.Edit", "GfaProofs.Lemmas.Graph", "GfaProofs.C09"],
                 "theorems": ["Gfa.C02.closed_reachable", "Gfa.C05Edit.closed_reachable", "Gfa.C05Edit.setTag_closed", "Gfa.C05Edit.rmText_closed", "Gfa.C02.rename_closed", "Gfa.C02.renameIn_segRefs", "Gfa.C02.renameIn_itemRefs",
                              "Gfa.C02.closed_reachable_partial", "Gfa.C02.step_closed", "Gfa.C02.add_closed", "Gfa.C02.rm_closed",
                              "Gfa.C02.rmIdx_closed", "Gfa.C02.rmCore_closed", "Gfa.C02.resetAll_closed", "Gfa.C02.grow_adopt", "Gfa.C02.rm_no_zombie", "Gfa.C02.reference_resolves", "Gfa.C02.ensureRefs_grow",
                              "Gfa.C02.cascade_closed", "Gfa.C02.live_not_dependent", "Gfa.C09.nodup_reachable",
                              "Gfa.Bridge.Geometry.refkey_table", "Gfa.Bridge.Geometry.linkKey_table", "Gfa.Bridge.Geometry.gapKey_table",
                              "Gfa.Bridge.Connect.referenceFields_table", "Gfa.Bridge.Connect.dependentLines_table",
                              "Gfa.Bridge.Connect.otherReferences_table", "Gfa.Bridge.Connect.gap_sets_link_paths"]},
        "ASSUMPTIONS": ["closure is proved for every history of add_line / rm by identifier / rm(line) and disconnect / rename / set and delete of a tag (C05Edit.closed_reachable; closed_reachable for the first three and rename); a rename is given an identifier in use "
                        "(not empty, not '*') and a new identifier that is not empty, not '*' and free of ',' and ' ' (okOp) - other new identifiers "
                        "are refused by the library's field validation",
                        "symmetry reference/back-reference: back-reference collections are queries over forward references in the model, so for that "
                        "clause the claim about the code rests on the correspondence (every collection of every line after every step) and the oracle",
                        "path -> link resolution is dynamic in the model (first compatible stored link); a placeholder link takes the overlap a path "
                        "step states for it (adoptOverlap) and gives it up when no stored path states it any more (resetPlaceholder) as in "
                        "Path._initialize_links / _remove_nonfield_backreferences; with two placeholder links over one pair of segment ends the "
                        "library's object bindings and the model's resolution can differ after such a reset: the correspondence stops "
                        "comparing a history at such a state (lib.ambiguous_placeholders), the oracle still judges it"],
    },
    "C03": {
        "LEAN": {"modules": ["GfaProofs.C03", "GfaProofs.C03Perm", "GfaProofs.C12Orient", "GfaProofs.Bridge.PathOrient", "GfaProofs.C13"], "support": ["GfaModel.Graph", "GfaModel.Version", "GfaProofs.C02", "GfaProofs.C09"],
                 "theorems": ["Gfa.C03.pathLinks_perm", "Gfa.Bridge.PathOrient.linkOrient_eq", "Gfa.C03.build_simple_perm", "Gfa.C03.build_simple", "Gfa.C03.build_simple_placeholders", "Gfa.C03.add_step",
                              "Gfa.C03.validSimple_perm", "Gfa.C03.defined_not_virtual", "Gfa.C03.add_defines", "Gfa.C03.add_cases", "Gfa.C03.ensureRefs_keeps",
                              "Gfa.C13.build_perm", "Gfa.C13.build_eq_spec", "Gfa.C13.runSkip_accepted", "Gfa.C13.runSkip_spec", "Gfa.C02.closed_reachable_partial", "Gfa.C09.nodup_reachable"]},
        "ASSUMPTIONS": ["order independence is proved in Lean for documents of segments and segment-referencing lines (S, L, C, E, G, F; with or "
                        "without identifiers; valid: distinct identifiers, segment references that are segments or undefined, pairwise incompatible "
                        "links): every permutation builds the same version and the same multiset of lines = the document plus exactly one placeholder "
                        "per mentioned-and-undefined identifier (build_simple, build_simple_perm, build_simple_placeholders); back-reference "
                        "collections are queries over the lines in the model, so they agree too",
                        "documents with paths, groups (placeholders of unknown type, same-id merging) and links given in both complement forms are outside "
                        "the proved fragment: for them proved are version invariance, replacement of placeholders by definitions, closure and uniqueness "
                        "in every arrival order; equality across orders is decided by the oracle (library vs itself on all n! orders) and the "
                        "correspondence (model vs library on sampled orders)"],
    },
    "C05": {
        "LEAN": {"modules": ["GfaProofs.C05", "GfaProofs.C05Rename", "GfaProofs.C05Edit", "GfaProofs.C14Frame", "GfaProofs.Bridge.Connect"], "support": ["GfaModel.Graph", "GfaModel.Edit", "GfaProofs.C02", "GfaProofs.C02Rename"],
                 "theorems": ["Gfa.Bridge.Connect.dependentLines_table", "Gfa.Bridge.Connect.otherReferences_table", "Gfa.Bridge.Connect.gap_sets_link_paths",
                              "Gfa.C05.rename_frame", "Gfa.C05.rename_mentions", "Gfa.C05.rename_carrier", "Gfa.C05.renameIn_frame",
                              "Gfa.C05.cascade_sound", "Gfa.C05.cascade_complete", "Gfa.C05.rm_lines", "Gfa.C05.rmCore_lines", "Gfa.C05.rm_lines_origin",
                              "Gfa.C05.rm_kept_unchanged", "Gfa.C05Edit.setTag_frame", "Gfa.C05Edit.editTag_refs", "Gfa.C05Edit.editTag_name", "Gfa.C05Edit.rmText_is_cascade",
                              "Gfa.C05Edit.nodup_reachable", "Gfa.C05Edit.closed_reachable", "Gfa.C14Frame.rm_frame", "Gfa.C14Frame.rmIdx_frame", "Gfa.C14Frame.rmIdx_keeps", "Gfa.C14Frame.cascade_plain",
                              "Gfa.C05.rm_set_rest", "Gfa.C05.rm_name_gone", "Gfa.C02.rmIdx_closed", "Gfa.C02.dropItems_itemRefs",
                              "Gfa.C09.rename_nodup", "Gfa.G.renameIn_name"]},
        "ASSUMPTIONS": ["the refinement 'state = parse of the denoted text' is decided by the oracle (independent text model + reparse) and the "
                        "correspondence; proved in Lean: the removal cascade is exactly the least closed set of dependants, the rest is textually unchanged "
                        "(rm_lines_origin: every remaining line is a kept line with the same record type and identifier, the same text unless it is a set "
                        "that lost a mention or a placeholder link that gave up an overlap no stored path states any more) and, the other way round, a real "
                        "segment, link, containment, edge, gap or fragment that is not the removed line and does not mention it is still there with the "
                        "same text (rm_frame: such a line goes only with a removed segment it mentions, cascade_plain); "
                        "a rename substitutes the identifier in every mention (rename_mentions), the renamed line carries the new identifier "
                        "(rename_carrier) and every line that does not mention the old identifier is literally unchanged (rename_frame)",
                        "a path goes with the link a step of it is bound to - the first stored link that fits the step, as the library binds the step to a link "
                        "object - also when a second, parallel link would still satisfy the step (corrected after the thorough tier: the model used to "
                        "keep such a path)",
                        "rm(line) / disconnect and set / delete of a tag are modelled (GfaModel/Edit.lean: the line is designated by its written form; the text of "
                        "the new tag is the library's, its place in the line is the model's) and run through the same correspondence; proved: a tag edit "
                        "changes neither record type, identifier nor any reference of the line, leaves the positional fields and every other line as "
                        "they were, replaces an existing tag in place and appends a new one (setTag_frame, editTag_refs), and the invariants of C02/C09 "
                        "hold for every history of all these mutations (C05Edit.closed_reachable, nodup_reachable); setting the ID tag of a link (a "
                        "rename) and which values a tag accepts are the oracle's"],
    },
    "C04": {
        "LEAN": {"modules": ["GfaProofs.Bridge.Regex", "GfaProofs.Lemmas.Regex", "GfaProofs.C20", "GfaProofs.Bridge.LineFmt", "GfaProofs.C04Line", "GfaProofs.C04Validate"],
                 "support": ["GfaProofs.Lemmas.RegexLang", "GfaModel.Grammar", "GfaModel.Field", "GfaModel.Regex", "GfaModel.LineFmt", "GfaModel.Validate"],
                 "theorems": ["Gfa.C04Validate.validate_simple", "Gfa.C04Validate.simple_virtual_iff", "Gfa.C04Validate.validate_refs_real",
                              "Gfa.C04Validate.validate_ok_iff", "Gfa.C04.idGfa2_not_placeholder", "Gfa.C04.f_accept_finite", "Gfa.C04.accepted_S2_named", "Gfa.C04.accepted_F_named", "Gfa.C04.acceptFields_iff", "Gfa.C04.accept_rewrite", "Gfa.C04.accept_too_few", "Gfa.C04.accept_dup_tag",
                              "Gfa.C04.accept_predefined_type", "Gfa.Bridge.LineFmt.posfields_table", "Gfa.Bridge.LineFmt.predefined_table",
                              "Gfa.Bridge.LineFmt.classes_complete", "Gfa.RE.accepts_iff", "Gfa.C20.int_accept_iff", "Gfa.C20.accept_Z_iff", "Gfa.C20.hex_odd_rejected",
                              "Gfa.C20.accept_intStr", "Gfa.C20.numarr_range_rejected"] +
                             ["Gfa.Bridge.Regex.re_" + n for n in
                              ["A", "i", "f", "Z", "J", "H", "B", "alnGfa1", "alnListGfa1", "oidListGfa1", "posGfa1", "segNameGfa1",
                               "seqGfa1", "pathNameGfa1", "idGfa2", "oidGfa2", "idListGfa2", "oidListGfa2", "optIdGfa2", "posGfa2",
                               "customRecordType", "seqGfa2", "optInt", "cigar1", "cigar2", "tagName"]]},
        "ASSUMPTIONS": ["JSON well-formedness of J payloads is a Python built-in outside the model; of the float conversion only finiteness is modelled (floatFinite: the numeral is below 2^1024 - 2^970, exact at the boundary), the value itself is not",
                        "line-level acceptance (arity, positional datatypes, tag syntax, unique tag names, predefined tag types, the cross-field rules "
                        "LN = |sequence|, path overlap count, begin <= end) is modelled (LineFmt.acceptLine), tied by the bridged class tables "
                        "POSFIELDS/DATATYPE/PREDEFINED_TAGS and by a correspondence on valid lines and their mutations, and characterised clause by "
                        "clause (acceptFields_iff)",
                        "Gfa.validate() (placeholder segments, path links, group items, `$` positions against the sequence) is modelled "
                        "(Validate.lean) and compared with the library on documents with lines taken away and `$` marks moved; proved: it refuses a "
                        "segment/edge document with NotFoundError exactly when the document mentions a segment it does not define, in any order of "
                        "the lines (validate_simple), and on a closed graph that validates every segment reference is a real line "
                        "(validate_refs_real); the same statements for paths and groups, the `$`-against-slen rule of the specification and the rGFA "
                        "restrictions are decided by the independent python recogniser (oracle)"],
    },
    "C06": {
        "LEAN": {"modules": ["GfaProofs.Bridge.Geometry", "GfaProofs.Bridge.Cigar", "GfaProofs.C06"],
                 "support": ["GfaModel.Convert", "GfaProofs.C11", "GfaProofs.C12"],
                 "theorems": ["Gfa.C06.swapped_edge_same_link", "Gfa.C06.swapRoles_swapRoles", "Gfa.C06.swapRoles_lens", "Gfa.C06.link_intervals", "Gfa.C06.link_touches", "Gfa.C06.link_to_edge_is_dovetail", "Gfa.C06.l_e_l", "Gfa.C06.c_e_c", "Gfa.C06.e_to_l", "Gfa.C06.e_l_e",
                              "Gfa.C06.compl_same_geometry", "Gfa.C06.containment_to_edge",
                              "Gfa.C12.refLen_compl", "Gfa.C12.queryLen_compl",
                              "Gfa.Bridge.Geometry.substringType_eq", "Gfa.Bridge.Geometry.segmentRole_table",
                              "Gfa.Bridge.Geometry.isSid1From_table", "Gfa.Bridge.Geometry.alnType_table",
                              "Gfa.Bridge.Cigar.len_table", "Gfa.Bridge.Cigar.flip_table"]},
        "ASSUMPTIONS": ["links whose overlap covers a whole segment are outside l_e_l (in GFA2 they are containments)",
                        "segments, paths/groups, tags and whole-graph conversion are decided by the text-level oracle"],
    },
    "C08": {
        "LEAN": {"modules": ["GfaProofs.C08", "GfaProofs.Bridge.Connect", "GfaProofs.C08Connect"],
                 "support": ["GfaModel.Header", "GfaModel.Graph", "GfaModel.Connect"],
                 "theorems": ["Gfa.C08.precheck_sufficient", "Gfa.C08.precheck_necessary", "Gfa.C08.ensureSeg_ok", "Gfa.C08.ensureLinks_ok",
                              "Gfa.Bridge.Connect.segRefTypes_table", "Gfa.Bridge.Connect.precheck_covers",
                              "Gfa.C08.merge_atomic", "Gfa.C08.mergeTagByTag_ok", "Gfa.C08.tagByTag_not_atomic",
                              "Gfa.C08.fail_keeps_state", "Gfa.C08.run_skips_failures"]},
        "ASSUMPTIONS": ["the model Gfa is a pure state machine: a failing operation returns the old state by construction; that the "
                        "implementation does the same is decided by the correspondence (full observation after every failing call) and the oracle",
                        "proved about the mechanism gfapy relies on: once Connection._check_segment_references (the model's precheck, record-type list "
                        "bridged from the source) has passed, creating the placeholders a line needs cannot fail (precheck_sufficient), and it refuses "
                        "only references for which no placeholder can be made (precheck_necessary)"],
    },
    "C09": {
        "LEAN": {"modules": ["GfaProofs.C09", "GfaProofs.C05Edit"], "support": ["GfaModel.Graph", "GfaModel.Edit", "GfaProofs.Lemmas.Graph"],
                 "theorems": ["Gfa.C09.nodup_reachable", "Gfa.C05Edit.nodup_reachable", "Gfa.C05Edit.setTag_nodup", "Gfa.C05Edit.rmText_nodup", "Gfa.C05Edit.editTags_idTag", "Gfa.C09.step_nodup", "Gfa.C09.add_nodup", "Gfa.C09.rm_nodup",
                              "Gfa.C09.rename_nodup", "Gfa.C09.lookup_sound", "Gfa.C09.lookup_none", "Gfa.C09.lookup_complete",
                              "Gfa.C09.rename_dup_raises", "Gfa.C09.add_dup_raises", "Gfa.C09.link_id_clash_characterised", "Gfa.C09.add_selfref_raises", "Gfa.C09.add_complement_noop",
                              "Gfa.C09.setName_name", "Gfa.G.renameIn_name"]},
        "ASSUMPTIONS": ["references are identifier-keyed in the model (object pointers in gfapy); equality of the two views is what the "
                        "correspondence compares after every step", "rename to the placeholder '*' is outside the model"],
    },
    "C13": {
        "LEAN": {"modules": ["GfaProofs.C13", "GfaProofs.C13Rgfa", "GfaProofs.Bridge.Rgfa"], "support": ["GfaModel.Version", "GfaModel.Rgfa"],
                 "theorems": ["Gfa.C13Rgfa.rgfa_ok_iff", "Gfa.C13Rgfa.rgfa_gfa2_refused", "Gfa.C13Rgfa.tagsComplaint_none",
                              "Gfa.Bridge.Rgfa.mandatory_table", "Gfa.Bridge.Rgfa.optional_table", "Gfa.C13.build_eq_spec", "Gfa.C13.build_perm", "Gfa.C13.queued_once", "Gfa.C13.accepted_version",
                              "Gfa.C13.unknown_run", "Gfa.C13.steps_known", "Gfa.C13.verdict_known"]},
        "ASSUMPTIONS": ["lines are abstracted to their version-relevant kind (10 kinds); vlevel >= 1",
                        "the rGFA dialect check validate_rgfa() is modelled on the graph (Rgfa.lean; tag table bridged from gfapy/rgfa.py) and "
                        "compared with the library on rGFA documents with departures; proved: it accepts exactly the GFA1 graphs without H/C/P lines "
                        "whose segments carry SN:Z SO:i SR:i, whose links carry SR/L1/L2 only as integers and whose overlaps are 0M (rgfa_ok_iff), and "
                        "GFA2 content is a VersionError (rgfa_gfa2_refused); how the dialect parameter interacts with version inference while lines "
                        "arrive is decided by the oracle"],
    },
    "C14": {
        "LEAN": {"modules": ["GfaProofs.Bridge.Seq", "GfaProofs.Bridge.Canonical", "GfaProofs.C14", "GfaProofs.C14Paths", "GfaProofs.C14Cover", "GfaProofs.C14Merge", "GfaProofs.C14MergeEnds", "GfaProofs.C14Frame", "GfaProofs.C16"],
                 "support": ["GfaModel.Seq", "GfaModel.LinearPaths", "GfaModel.MergeGraph"],
                 "theorems": ["Gfa.C14Merge.mergePath_closed", "Gfa.C14Merge.mergePath_nodup", "Gfa.C14Merge.mergePath_members_gone",
                              "Gfa.C14Merge.mergeAll_closed", "Gfa.C14Merge.mergeAll_nodup", "Gfa.C14Merge.mergePath_steps",
                              "Gfa.C14Frame.mergePath_frame", "Gfa.C14Frame.mergeAll_frame", "Gfa.C14Frame.relink_frame", "Gfa.C14Frame.rmAll_frame",
                              "Gfa.C14Frame.add_keeps", "Gfa.C14Frame.mergedSegment_rt", "Gfa.C14Frame.dovEnds_mentions",
                              "Gfa.C14Merge.lenAlong_sum", "Gfa.C14Merge.merged_length_matches",
                              "Gfa.C14Merge.merged_sequence_is_spell", "Gfa.C14Merge.moveTo_L_ends", "Gfa.C14Merge.moved_first",
                              "Gfa.C14Merge.moved_last", "Gfa.C14Merge.moveTo_L_rest",
                              "Gfa.C14.linearPaths_cover", "Gfa.C14.linearPaths_maximal", "Gfa.C14.linearPath_closed", "Gfa.C14.traverse_last",
                              "Gfa.C14.linearPaths_chains", "Gfa.C14.linearPaths_disjoint", "Gfa.C14.linearPath_chain",
                              "Gfa.C14.linearPath_names", "Gfa.C14.traverse_chain", "Gfa.C14.otherEnds_sym", "Gfa.C14.joined_unique",
                              "Gfa.C14.rc_rc", "Gfa.C14.rc_length", "Gfa.C14.rc_append", "Gfa.C14.spell_length", "Gfa.C14.spell_prefix",
                              "Gfa.C14.wcc_involutive_table", "Gfa.Bridge.Seq.wcc_table", "Gfa.Bridge.Seq.wcc_dropped",
                              "Gfa.Bridge.Seq.cut_samples", "Gfa.Bridge.Canonical.segLength_eq", "Gfa.C16.component_iff_chain"]},
        "ASSUMPTIONS": ["linear_paths/linear_path are modelled statement by statement (GfaModel/LinearPaths.lean) and compared with the library on whole "
                        "graphs (exact order and orientation); proved: every returned path is a chain whose consecutive members are joined by a dovetail "
                        "that is the only dovetail on both joined ends, has >= 2 members, no segment occurs twice in or across paths (linearPaths_chains, "
                        "linearPaths_disjoint), and no chain is missed or cut short: two different segments so joined are members of one returned path "
                        "(linearPaths_cover, linearPaths_maximal) - i.e. the returned paths are exactly the maximal chains; a circular single segment "
                        "(joined to itself) is not a path (x.name != y.name)",
                        "merge_linear_path / merge_linear_paths (default parameters: no redundant junctions, no tracking, names joined by '_') are "
                        "modelled on the graph (GfaModel/MergeGraph.lean: merged segment with its sequence, LN/slen and tags, the dovetails of the two outer "
                        "ends moved - positions of E lines recomputed -, members removed with their dependants) and compared with the library by complete "
                        "observation after the merge, refusals included (name taken, overlap not M/=); proved: closure and distinct identifiers carry "
                        "through (mergePath_closed/_nodup, mergeAll_*), no member identifier survives (mergePath_members_gone), the length written is "
                        "the sum of member lengths minus overlaps and equals the spelled length (lenAlong_sum, merged_length_matches), the sequence of the "
                        "merged segment is the spelled sequence of the chain (merged_sequence_is_spell), a GFA1 link moved from an outer end joins the "
                        "left (first member) / right (last member) end of the merged segment with whatever it joined before, overlap and tags kept "
                        "(moved_first, moved_last, moveTo_L_rest; the same for E lines rests on the correspondence); the frame: a real segment, link, "
                        "containment, edge, gap or fragment that is not a member and mentions no member is a line with the same text after the merge "
                        "(mergePath_frame, mergeAll_frame: additions displace no real line - add_keeps -, a removal takes such a line only with a removed "
                        "segment it mentions - rm_frame -, the dovetails moved all mention the outer member - dovEnds_mentions); the frame for paths and "
                        "groups (which depend on other lines transitively) and the options redundant_junctions / enable_tracking / cut_counts / merged_name are decided by the "
                        "text-level oracle on the real library only"],
    },
    "C15": {
        "LEAN": {"modules": ["GfaProofs.Bridge.Multiply", "GfaProofs.C15", "GfaProofs.C15Graph", "GfaProofs.C15Dist"], "support": ["GfaModel.Multiply", "GfaModel.MultiplyGraph"],
                 "theorems": ["Gfa.C15.multiplyD_closed", "Gfa.C15.multiplyD_nodup", "Gfa.C15.distribute_closed", "Gfa.C15.distribute_nodup",
                              "Gfa.C15.distribute_origin", "Gfa.C15.thinOne_origin", "Gfa.C15.multiply_lines", "Gfa.C15.multiply_frame", "Gfa.C15.multiply_segments", "Gfa.C15.multiply_nodup",
                              "Gfa.C15.multiply_closed", "Gfa.C15.multiply_one", "Gfa.C15.multiply_zero", "Gfa.C15.mem_copiesFor",
                              "Gfa.C15.divCounts_name", "Gfa.C15.divCounts_segRefs", "Gfa.C15.auto_select_sound", "Gfa.C15.auto_select_equal_R", "Gfa.C15.distribute_covers",
                              "Gfa.C15.distribute_subset", "Gfa.C15.distribute_exact", "Gfa.C15.distribute_window_size",
                              "Gfa.C15.copy_names_fresh_distinct", "Gfa.C15.counts_divided",
                              "Gfa.Bridge.Multiply.autoSelect_eq", "Gfa.Bridge.Multiply.autoSelect_samples",
                              "Gfa.Bridge.Multiply.window_samples", "Gfa.Bridge.Multiply.policies"]},
        "ASSUMPTIONS": ["multiply without link distribution is modelled on the graph (GfaModel/MultiplyGraph.lean) and compared with the library's complete "
                        "observation after the call; proved: the shape of the result (old lines with divided counts + per copy name a copy of the "
                        "segment and of each dovetail/containment with the identifier substituted), the frame, the segments afterwards, and that "
                        "unique identifiers and the closed reference graph survive; the value of the divided counts is integer floor division by "
                        "definition of the model (checked against the library by the correspondence)",
                        "link distribution is modelled on the graph too (multiplyD: end chosen by policy L/R/auto/equal, each copy keeps the links whose "
                        "other end is in its window of the signature list, the others are removed with their dependants) and compared with the "
                        "library by complete observation; proved: closure and distinct identifiers survive (multiplyD_closed/_nodup), no line is "
                        "invented (distribute_origin), and on indices every link is kept by some copy and each copy keeps n-k+1 (distribute_covers, "
                        "distribute_exact); that the windows are taken over *signatures* (parallel links to one end share a signature) is mirrored "
                        "by the model and judged by the oracle; track_origin / conserve_components are oracle-only"],
    },
    "C16": {
        "LEAN": {"modules": ["GfaProofs.Bridge.Geometry", "GfaProofs.C16"], "support": ["GfaModel.Components", "GfaProofs.Lemmas.Closure"],
                 "theorems": ["Gfa.C16.component_iff_chain", "Gfa.C16.component_class", "Gfa.C16.components_disjoint_or_equal",
                              "Gfa.C16.components_cover", "Gfa.C16.components_are_classes", "Gfa.C16.only_dovetails_connect",
                              "Gfa.C16.adj_symm", "Gfa.C16.chain_symm", "Gfa.C16.sum_count", "Gfa.Closure.lfp_iff",
                              "Gfa.Bridge.Geometry.refkey_table", "Gfa.Bridge.Geometry.linkKey_table"]},
    },
    "C18": {
        "LEAN": {"modules": ["GfaProofs.C18", "GfaProofs.C18Line"], "support": ["GfaModel.Levels", "GfaProofs.C20"],
                 "theorems": ["Gfa.C18.line_levels_canon", "Gfa.C18.line_levels_literal", "Gfa.C18.line_levels_123", "Gfa.C18.line_accept_mono",
                              "Gfa.C18.line_accept_le", "Gfa.C18.levels_agree_canon", "Gfa.C18.levels_agree_literal", "Gfa.C18.accept_mono",
                              "Gfa.C18.invalid_set_L3", "Gfa.C18.invalid_write_L2", "Gfa.C18.invalid_validate",
                              "Gfa.C18.valid_never_rejected", "Gfa.C18.canon_idem", "Gfa.C18.get_preserves_canon", "Gfa.C18.get_val_noop", "Gfa.C18.intCodec_lawful",
                              "Gfa.C18.strCodec_lawful", "Gfa.C18.bytesCodec_lawful"]},
        "ASSUMPTIONS": ["the laws are proved for one field and lifted to a whole line (a list of fields with their own codecs and lazy-parsing flags); "
                        "graph-level agreement across levels is decided by the oracle (obs equality for k=0..3, also after reading every field)"],
    },
    "C19": {
        "LEAN": {"modules": ["GfaProofs.C19", "GfaProofs.Bridge.Clone"], "support": ["GfaModel.Heap"],
                 "theorems": ["Gfa.C19.clone_equal", "Gfa.C19.clone_detached", "Gfa.C19.clone_separate", "Gfa.C19.edits_independent",
                              "Gfa.C19.edits_independent_rev", "Gfa.C19.edit_frame", "Gfa.C19.ids_copy", "Gfa.C19.shared_is_not_independent",
                              "Gfa.Bridge.Clone.no_mutable_shared", "Gfa.Bridge.Clone.reference_fields_named"]},
        "ASSUMPTIONS": ["object-identity model of field values (tree of objects with id()); which classes the clone copies is extracted from "
                        "the running code per value class (Bridge.Clone)"],
    },
    "C07": {
        "LEAN": {"modules": ["GfaProofs.Bridge.Regex", "GfaProofs.C07", "GfaProofs.C07Regex"], "support": ["GfaModel.Partial", "GfaModel.Field", "GfaProofs.Lemmas.Digits"],
                 "theorems": ["Gfa.C07Regex.oidList_old_iff_new", "Gfa.C07Regex.oidList_accepts_eq", "Gfa.C07Regex.model_uses_new",
                              "Gfa.Bridge.Regex.re_oidListGfa1", "Gfa.C07.decodeTag_no_foreign", "Gfa.C07.decodePos_no_foreign", "Gfa.C07.recordType_no_foreign",
                              "Gfa.C07.parseLine_no_foreign", "Gfa.C07.pyInt_ok_of_accept", "Gfa.C07.unhexlify_ok_of_accept",
                              "Gfa.C07.idx0_ok_of_accept", "Gfa.Bridge.Regex.re_i", "Gfa.Bridge.Regex.re_H", "Gfa.Bridge.Regex.re_A"]},
        "ASSUMPTIONS": ["termination: the expression that validated a list of oriented GFA1 names was ambiguous (exponential backtracking in Python's "
                        "re, repaired in 93e5bab); oidList_old_iff_new proves that the repaired expression denotes the same language, the bridge "
                        "re_oidListGfa1 ties the model to the literal now in the source; that Python's matcher is linear on the new expression and "
                        "every other run-time bound is decided by the oracle's per-call alarm",
                        "the partial Python primitives (int(), binascii.unhexlify, s[0], list[i], json.loads) are modelled by `Outcome` "
                        "functions that fail exactly where CPython raises; the parsing pipeline (record type dispatch, positional "
                        "fields, tags, decode after validation) is modelled, the graph operations and the API beyond parsing are "
                        "decided by the oracle on the real library",
                        "termination: every model function is total (structural / well-founded recursion accepted by the kernel); "
                        "RecursionError of CPython on deeply nested JSON/groups is outside the model (known finding)"],
    },
    "C10": {
        "LEAN": {"modules": ["GfaProofs.C10", "GfaProofs.Bridge.Cigar"], "support": ["GfaModel.Driver", "GfaModel.Levels", "GfaModel.Heap"],
                 "theorems": ["Gfa.C10.step_frame", "Gfa.C10.queries_frame", "Gfa.C10.ask_twice", "Gfa.C10.swap_restore",
                              "Gfa.C18.get_preserves_canon", "Gfa.C18.get_val_noop", "Gfa.C19.edit_frame",
                              "Gfa.Bridge.Cigar.compl_pure", "Gfa.Bridge.Cigar.compl_reverses"]},
        "ASSUMPTIONS": ["purity is by construction in the model; the tie is the correspondence: the library is asked its read-only calls "
                        "(each twice) between two observations, the model is not, and the observations must stay equal"],
    },
    "C17": {
        "LEAN": {"modules": ["GfaProofs.C17", "GfaProofs.C17Path"], "support": ["GfaModel.Groups", "GfaModel.Captured", "GfaModel.Graph", "GfaProofs.Lemmas.Closure", "GfaProofs.C02"],
                 "theorems": ["Gfa.C17.induced_iff_reach", "Gfa.C17.induced_contains_group", "Gfa.C17.induced_closed", "Gfa.C17.induced_least",
                              "Gfa.C17.induced_segments_iff", "Gfa.C17.induced_edges_iff", "Gfa.C17.mergeTags_spec",
                              "Gfa.C17.mergeTags_conflict", "Gfa.C17.mergeGroup_conflict_atomic", "Gfa.C17.merged_items_concat",
                              "Gfa.C17.merged_items_concat_O", "Gfa.Closure.lfp_iff",
                              "Gfa.C17.captured_is_walk", "Gfa.C17.walk_shape", "Gfa.C17.supplied_edge_unique",
                              "Gfa.C17.noncontiguous_error", "Gfa.C17.ambiguous_error", "Gfa.C17.fitting_joins"]},
        "ASSUMPTIONS": ["captured path: the model follows captured_path.py method by method (recursion through nested groups by fuel = number "
                        "of lines + 1; cyclic nesting is RecursionError in the library, `depth` in the model and excluded from the "
                        "correspondence); proved: every returned path is an alternating walk whose edges join their neighbours and supplied "
                        "edges are unique; that the walk is the one *the specification* implies is decided by the oracle (independent "
                        "walk search, two readings of nesting)"],
    },
    "C20": {
        "LEAN": {"modules": ["GfaProofs.Bridge.Regex", "GfaProofs.C20", "GfaProofs.Bridge.Tags"],
                 "support": ["GfaModel.Field", "GfaProofs.Lemmas.RegexLang", "GfaProofs.Lemmas.Digits"],
                 "theorems": ["Gfa.C20.int_roundtrip", "Gfa.C20.str_roundtrip", "Gfa.C20.str_unrepresentable", "Gfa.C20.chr_roundtrip",
                              "Gfa.C20.bytes_roundtrip", "Gfa.C20.bytes_empty_refused", "Gfa.C20.hex_odd_rejected",
                              "Gfa.C20.integerType_sound", "Gfa.C20.integerType_signedness", "Gfa.C20.integerType_minimal",
                              "Gfa.C20.integerType_none_iff", "Gfa.C20.numarr_subtype_holds_all", "Gfa.C20.numarr_range_rejected",
                              "Gfa.C20.accept_intStr", "Gfa.Bridge.Regex.re_i", "Gfa.Bridge.Regex.re_Z", "Gfa.Bridge.Regex.re_A",
                              "Gfa.Bridge.Regex.re_H", "Gfa.Bridge.Regex.re_B", "Gfa.Bridge.Tags.subtype_range",
                              "Gfa.Bridge.Tags.default_datatype", "Gfa.Bridge.Tags.integer_type_samples"]},
        "ASSUMPTIONS": ["f and J payloads opaque (Python float repr / json codec assumed idempotent; validated by the oracle on every literal)"],
    },
}

for _p, _s in SPEC.items():
    _s.setdefault("LEVEL_NOTE", _LEVEL_NOTE)
