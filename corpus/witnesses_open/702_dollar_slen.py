import gfapy
import sys

ERR = (gfapy.ValueError, gfapy.FormatError, gfapy.InconsistencyError)
failures = []

def must_raise(label, f):
  try:
    f()
  except ERR:
    return
  except Exception as e:
    failures.append("{}: wrong exception {!r}".format(label, e))
    return
  failures.append("{}: accepted".format(label))

S = "S\tA\t4\t*\nS\tB\t5\t*\n"
for e in ["E\t*\tA+\tB-\t0\t2$\t0\t1\t*",
          "E\t*\tA+\tB-\t0\t4$\t0\t4$\t*",
          "E\t*\tB+\tA-\t2$\t2$\t0\t1\t*",
          "E\t*\tB+\tA-\t0$\t0$\t0\t1\t*",
          "F\tA\tr+\t0\t2$\t0\t1\t*",
          "F\tB\tr+\t4$\t4$\t0\t1\t*"]:
  must_raise(repr(e), lambda: gfapy.Gfa(S + e, vlevel=3))
  def late():
    g = gfapy.Gfa(S + e, vlevel=0)
    g.validate()
  must_raise(repr(e) + " validate()", late)

# valid: $ exactly on slen, with and without sequence; $ on the fragment
# side is not checked (length of the external sequence unknown)
gfapy.Gfa(S + "E\t*\tA+\tB-\t0\t4$\t0\t5$\t*", vlevel=3)
gfapy.Gfa(S + "E\t*\tA+\tB-\t4$\t4$\t5$\t5$\t*", vlevel=3)
gfapy.Gfa(S + "F\tA\tr+\t0\t4$\t0\t1$\t*", vlevel=3)
gfapy.Gfa("S\tA\t4\tACGT\nS\tB\t5\t*\nE\t*\tA+\tB-\t0\t4$\t3\t5$\t*", vlevel=3)
# edge before its segments (virtual segment, length unknown)
gfapy.Gfa("E\t*\tA+\tB-\t0\t4$\t0\t5$\t*\n" + S, vlevel=3)

if failures:
  print("\n".join(failures))
  sys.exit(1)
print("ok")
