import gfapy
import sys

failures = []
lines = ["S\tA\t*\tLN:i:10", "S\tB\t*\tLN:i:10", "S\tC\t*\tLN:i:10",
         "L\tA\t+\tB\t+\t2M", "L\tB\t+\tC\t-\t3M\tID:Z:bc",
         "C\tA\t+\tC\t+\t2\t4M", "P\tp\tA+,B+,C-\t2M,3M"]

def fresh():
  return gfapy.Gfa(lines, vlevel=1)

for label, call in [
    ("Gfa.to_gfa2_s", lambda g: g.to_gfa2_s()),
    ("Gfa.to_gfa2", lambda g: str(g.to_gfa2())),
    ("L.to_gfa2_s", lambda g: g.dovetails[0].to_gfa2_s()),
    ("L.to_gfa2", lambda g: str(g.dovetails[0].to_gfa2())),
    ("C.to_gfa2_s", lambda g: g.containments[0].to_gfa2_s()),
    ("C.to_gfa2", lambda g: str(g.containments[0].to_gfa2())),
    ("P.to_gfa2_s", lambda g: g.line("p").to_gfa2_s()),
    ("P.to_gfa2", lambda g: str(g.line("p").to_gfa2()))]:
  g = fresh()
  before = str(g)
  try:
    r1 = call(g)
    if str(g) != before:
      failures.append("{}: source graph changed:\n{}".format(label, str(g)))
    r2 = call(g)
    if r1 != r2:
      failures.append("{}: first {!r} then {!r}".format(label, r1, r2))
    if str(g) != before:
      failures.append("{}: source graph changed by the second call".format(label))
  except Exception as e:
    failures.append("{}: {!r}".format(label, e))

# the converted graph is consistent: the O line refers to the converted edges
for conv in [lambda g: gfapy.Gfa(g.to_gfa2_s(), vlevel=3), lambda g: g.to_gfa2()]:
  g = fresh()
  try:
    g2 = conv(g)
    g2.validate()
    names = [e.name for e in g2.edges]
    if len(set(names)) != 3 or any(gfapy.is_placeholder(n) for n in names):
      failures.append("converted edges are not uniquely named: {!r}".format(names))
    o = g2.line("p")
    items = [str(i) for i in o.items]
    ab = [e for e in g2.edges if e.sid1.name == "A" and e.sid2.name == "B"][0]
    if items != ["A+", ab.name + "+", "B+", "bc+", "C-"]:
      failures.append("O line items: {!r}".format(items))
    back = gfapy.Gfa(g2.to_gfa1_s(), vlevel=3)
    if "P\tp\tA+,B+,C-\t2M,3M" not in str(back).split("\n"):
      failures.append("path after GFA1->GFA2->GFA1: {!r}".format(str(back)))
  except Exception as e:
    failures.append("converted graph: {!r}".format(e))

# the path is converted before the link
g = fresh()
try:
  o = g.line("p").to_gfa2_s()
  e = g.dovetails[0].to_gfa2_s()
  if o.split("\t")[2].split(" ")[1] != e.split("\t")[1] + "+":
    failures.append("path {!r} does not refer to the edge {!r}".format(o, e))
except Exception as e:
  failures.append("path first: {!r}".format(e))

if failures:
  print("\n".join(failures))
  sys.exit(1)
print("ok")
