import gfapy
import sys

failures = []

def roundtrip(ta, tb, **kw):
  a = gfapy.Line(ta, **kw)
  b = gfapy.Line(tb, **kw)
  try:
    script = a.diffscript(b, "x")
    x = a.clone()
    exec(script)
    if str(x) != str(b) and sorted(str(x).split("\t")) != sorted(str(b).split("\t")):
      failures.append("{!r} -> {!r}: script gives {!r}\n{}".format(ta, tb, str(x), script))
  except Exception as e:
    failures.append("{!r} -> {!r}: {!r}".format(ta, tb, e))

# tags only in the other line, with values which are not strings
roundtrip("S\tA\t*", "S\tA\t*\tLN:i:10")
roundtrip("S\tA\t*\txx:Z:a", "S\tB\t*\tyy:i:-3\tzz:f:1.5\tbb:B:i,1,2\tjj:J:{\"a\": 1}\thh:H:0AFF")
roundtrip("S\tA\t*\tyy:i:-3\tzz:f:1.5", "S\tA\t*\txx:Z:it's")
roundtrip("L\tA\t+\tB\t+\t*", "L\tA\t-\tC\t+\t3M\tMQ:i:3\tID:Z:l1")
roundtrip("S\tA\t10\t*", "S\tA\t12\tACGT\tRC:i:4", version="gfa2")

# incompatible lines: gfapy.RuntimeError
for ta, tb, kwa, kwb in [("S\tA\t*", "L\tA\t+\tB\t+\t*", {}, {}),
                         ("S\tA\t*", "S\tA\t10\t*", {}, {}),
                         ("H\txx:i:1", "# c", {}, {})]:
  a = gfapy.Line(ta, **kwa)
  b = gfapy.Line(tb, **kwb)
  try:
    a.diffscript(b, "x")
    failures.append("{!r} vs {!r}: no error".format(ta, tb))
  except gfapy.RuntimeError as e:
    if "!=" not in str(e):
      failures.append("{!r} vs {!r}: message {!r}".format(ta, tb, str(e)))
  except Exception as e:
    failures.append("{!r} vs {!r}: {!r}".format(ta, tb, e))

if failures:
  print("\n".join(failures))
  sys.exit(1)
print("ok")
