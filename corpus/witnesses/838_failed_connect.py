"""C07/C08: line.connect(gfa) that fails while the references are set up (positions of an edge that are not consistent)
leaves line.gfa set: the Gfa does not know the line, a later Gfa.rm(line) raises the builtin KeyError."""
import sys, gfapy
bad = 0
for lvl in (0, 1, 2, 3):
    g = gfapy.Gfa(["S\tA\t10\t*", "S\tB\t10\t*"], version="gfa2", vlevel=lvl)
    e = gfapy.Line("E\te0\tB-\tA+\t6\t10$\t6\t10$\t4M", version="gfa2", vlevel=0)
    e.set("beg2", "e0" if lvl == 0 else 12)
    before = str(g)
    try:
        e.connect(g)
        bad += 1; print("FAIL connected", lvl)
    except gfapy.Error:
        pass
    if e.is_connected() or e.gfa is not None or str(g) != before:
        bad += 1; print("FAIL claims the Gfa", lvl, e.is_connected(), repr(str(g)))
    for call in (lambda: g.rm(e), lambda: e.disconnect(), lambda: str(g), lambda: g.validate()):
        try:
            call()
        except gfapy.Error:
            pass
        except Exception as x:
            bad += 1; print("FAIL foreign", lvl, type(x).__name__)
sys.exit(1 if bad else 0)
