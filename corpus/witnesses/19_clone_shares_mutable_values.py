import gfapy
pass
# F line: external is an OrientedLine, positions may be LastPos
s = "F\tA\tread1+\t0\t10$\t5\t15$\t2M1D3M\txx:B:i,1,2\tjj:J:{\"a\":[1]}"
l = gfapy.Line(s, vlevel=3)
s = str(l) # canonical spelling of the B and J tags
c = l.clone()
assert str(c) == s
assert c.external is not l.external
c.external.invert()
assert str(l) == s, str(l)
c.external.line = "other"
assert str(l) == s, str(l)
assert c.s_end is not l.s_end and c.f_end is not l.f_end
c.s_end.value = 99
assert str(l) == s, str(l)
c.alignment[0].code = "I"; c.xx[0] = 7; c.jj["a"].append(2)
assert str(l) == s, str(l)
assert str(c) == "F\tA\tother-\t0\t99$\t5\t15$\t2I1D3M\txx:B:C,7,2\tjj:J:{\"a\": [1, 2]}", str(c)
# connected: reference fields become strings, the other values are copied
g = gfapy.Gfa("S\tA\t10\t*\n"+s, vlevel=3)
f = g.fragments[0]
c = f.clone()
assert c.sid == "A" and not c.is_connected()
c.external.invert()
assert str(f) == s and str(g.fragments[0].external) == "read1+"
assert list(g._records["F"].keys()) == ["read1"]
# E line positions
e = gfapy.Line("E\t*\tA+\tB-\t0\t10$\t5\t15$\t*")
c = e.clone()
c.end1.value = 3
assert str(e) == "E\t*\tA+\tB-\t0\t10$\t5\t15$\t*", str(e)
# header with repeated tags (FieldArray values)
g = gfapy.Gfa("H\taa:i:1\nH\taa:i:2\nH\tjj:J:[1]\nH\tjj:J:[2]")
h = g.header
c = h.clone()
assert str(c) == str(h)
assert c.aa is not h.aa
c.aa.append(3); list(c.jj)[0].append(5)
assert h.aa == [1, 2] and str(g) == "H\taa:i:1\nH\taa:i:2\nH\tjj:J:[1]\nH\tjj:J:[2]", str(g)
print("ok")
