import gfapy
pass
l1 = gfapy.Line("L\tA\t+\tB\t+\t2M1D3M")
l2 = gfapy.Line("L\tA\t+\tB\t+\t2M1D3M")
assert l1 == l2
assert isinstance(hash(l1), int)
assert hash(l1) == hash(l2)
assert hash(l1) == hash(l1.complement())   # documented: same hash for the complement
assert len({l1, l2}) == 1
d = {l1: 1}
assert d[l2] == 1
for txt in ["S\tA\t*\tKC:i:10\nL\tA\t+\tA\t+\t*\tKC:i:4",
            "S\tA\t*\tKC:i:10\nL\tA\t+\tA\t-\t*\tKC:i:4",
            "S\tA\t*\tKC:i:10\nS\tB\t*\nL\tA\t+\tA\t+\t*\tKC:i:4\nL\tA\t+\tB\t+\t*\tKC:i:4"]:
  g = gfapy.Gfa(txt)
  g.multiply("A", 2)
  assert sorted(g.segment_names) == sorted(["A", "A*2"] + (["B"] if "B" in txt else [])), g.segment_names
  assert g.segment("A").KC == 5 and g.segment("A*2").KC == 5
  assert len(g.dovetails) == (4 if "B" in txt else 2), str(g)
  for l in g.dovetails:
    assert l.KC == 2, str(l)
    if l.from_name != "B" and l.to_name != "B":
      assert l.from_name == l.to_name
  gfapy.Gfa(str(g), vlevel=3).validate()
print("ok")
