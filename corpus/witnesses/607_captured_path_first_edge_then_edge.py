import gfapy
# captured path of an O line which starts with two edge items

def walk(lines, name="p"):
  g = gfapy.Gfa(["\t".join(l.split("|")) for l in lines], version="gfa2")
  return " ".join(str(x) for x in g.line(name).captured_path)

# (a) the orientation of the second edge must be used for its segments
w = walk(["S|A|10|*", "S|B|8|*", "E|e1|A+|B-|8|10$|6|8$|2M",
          "E|e3|A-|B-|3|5|2|4|*", "O|p|e1- e3+"])
assert w == "B+ e1- A- e3+ B-", w

# (b) parallel edges: both segments of the first edge are segments of the
# second one; the first edge is walked in its own direction
w = walk(["S|A|10|*", "S|B|8|*", "E|e2|B+|A-|6|8$|8|10$|2M",
          "E|e4|A-|B+|0|2|0|2|2M", "O|p|e4+ e2+ A-"])
assert w == "A- e4+ B+ e2+ A-", w

# second edge reversed
w = walk(["S|A|10|*", "S|B|8|*", "S|C|6|*", "E|e1|A+|B+|8|10$|0|2|2M",
          "E|e2|C-|B-|0|2|6|8$|2M", "O|p|e1+ e2-"])
assert w == "A+ e1+ B+ e2- C+", w

# controls: the lone reversed edge and the lenient reading are kept
w = walk(["S|A|10|*", "S|B|8|*", "E|e1|A+|B+|8|10$|0|2|2M", "O|p|e1-"])
assert w == "B- e1- A-", w
w = walk(["S|A|10|*", "S|B|8|*", "S|C|6|*", "E|e1|A+|B+|8|10$|0|2|2M",
          "E|e2|A+|C+|8|10$|0|2|2M", "O|p|e1+ e2+"])
assert w == "B+ e1+ A+ e2+ C+", w
