import gfapy
import sys

failures = []

def expect_gfapy_error(label, fn):
  try:
    fn()
  except gfapy.Error:
    return
  except Exception as e:
    failures.append("{}: raised builtin {}: {}".format(
      label, type(e).__name__, str(e).split("\n")[-1]))
    return
  failures.append("{}: no error raised".format(label))

anonymous = gfapy.Line("E\t*\tA+\tB-\t0\t3\t7\t10$\t3M", version="gfa2")
header = gfapy.Line("H\tVN:Z:2.0", version="gfa2")
BAD = [gfapy.OrientedLine(5, "+"), gfapy.OrientedLine(None, "+"),
       gfapy.OrientedLine(["A"], "+"), gfapy.OrientedLine(anonymous, "+"),
       gfapy.OrientedLine(header, "-")]
FIELDS = [("E\te\tA+\tB-\t0\t3\t7\t10$\t3M", "gfa2", "sid1", False),
          ("O\to\tA+ B-", "gfa2", "items", True),
          ("P\tp\tA+,B-\t3M", "gfa1", "segment_names", True)]

for bad in BAD:
  expect_gfapy_error("{!r:.60}.validate()".format(bad), lambda: bad.validate())
  for line, version, field, is_list in FIELDS:
    value = [bad, bad] if is_list else bad
    label = "{} = {!r:.60}".format(field, value)
    l = gfapy.Line(line, version=version, vlevel=3)
    expect_gfapy_error(label + ": set at vlevel 3",
                       lambda: l.set(field, value))
    def assign():
      setattr(l, field, value)
    expect_gfapy_error(label + ": assignment at vlevel 3", assign)
    if str(l) != line:
      failures.append(label + ": rejected assignment changed the line")
    for vlevel in [0, 1, 2]:
      l = gfapy.Line(line, version=version, vlevel=vlevel)
      l.set(field, value)
      expect_gfapy_error(label + ": validate_field at vlevel {}".format(vlevel),
                         lambda: l.validate_field(field))
      expect_gfapy_error(label + ": validate at vlevel {}".format(vlevel),
                         lambda: l.validate())
      if vlevel >= 2:
        expect_gfapy_error(label + ": field_to_s at vlevel {}".format(vlevel),
                           lambda: l.field_to_s(field))

# references to named lines and names are valid
seg = gfapy.Line("S\tC\t10\t*", version="gfa2")
for line, version, field, is_list in FIELDS[:2]:
  for good in [gfapy.OrientedLine(seg, "-"), gfapy.OrientedLine("C", "-")]:
    value = [good, good] if is_list else good
    for vlevel in [0, 1, 2, 3]:
      try:
        l = gfapy.Line(line, version=version, vlevel=vlevel)
        l.set(field, value)
        l.validate()
        assert l.field_to_s(field) == ("C- C-" if is_list else "C-")
      except Exception as e:
        failures.append("valid {} = {!r:.50} rejected at vlevel {}: {!r}".format(
          field, value, vlevel, e))

if failures:
  print("\n".join(failures))
  sys.exit(1)
