import gfapy
import sys

failures = []
texts = ["L", "L\tA", "S", "S\tA\t10", "E\t*\tA+", "C\tA\t+\tB\t+\t0", "P\tp",
         "O\to", "U", "G\t*\tA+\tB-\t10", "F\tA"]
for t in texts:
  for vl in [0, 1, 2, 3]:
    for version in [None, "gfa1" if t[0] in "LCP" else "gfa2"]:
      if t[0] == "S" and version is None:
        continue
      try:
        gfapy.Line(t, vlevel=vl, version=version)
      except gfapy.FormatError:
        continue
      except Exception as e:
        failures.append("{!r} vlevel={} version={}: {!r}".format(t, vl, version, e))
        continue
      failures.append("{!r} vlevel={} version={}: accepted".format(t, vl, version))
for vl in [0, 1, 2, 3]:
  try:
    gfapy.Gfa("S\tA\t*\nL\tA\t+", vlevel=vl)
    failures.append("Gfa vlevel={}: accepted".format(vl))
  except gfapy.FormatError:
    pass
  except Exception as e:
    failures.append("Gfa vlevel={}: {!r}".format(vl, e))

# complete lines are still accepted at vlevel 0, also with invalid content
assert str(gfapy.Line("L\tA\t+\tB\t+\t*", vlevel=0)) == "L\tA\t+\tB\t+\t*"
assert str(gfapy.Line("L\tA\t?\tB\t+\tx", vlevel=0)) == "L\tA\t?\tB\t+\tx"
assert str(gfapy.Line("H", vlevel=0)) == "H"
assert str(gfapy.Line("X", vlevel=0)) == "X"

if failures:
  print("\n".join(failures))
  sys.exit(1)
print("ok")
