import gfapy
pass
g = gfapy.Gfa("S\tA\t*\tLN:i:10\nS\tB\t*\tLN:i:20\nL\tA\t+\tB\t+\t3M\nL\tA\t-\tB\t-\t4M\nC\tB\t+\tA\t+\t5\t10M")
for l in g.dovetails + g.containments:
  e = l.to_gfa2()
  assert [str(x) for x in (l.beg1, l.end1)] == [str(x) for x in l.from_coords]
  assert [str(x) for x in (l.beg2, l.end2)] == [str(x) for x in l.to_coords], (str(l), l.beg2, l.end2, l.to_coords)
  assert [str(x) for x in (l.beg1, l.end1, l.beg2, l.end2)] == \
         [str(x) for x in (e.beg1, e.end1, e.beg2, e.end2)], (str(l), str(e))
l = g.dovetails[0]
assert l.beg2 == 0 and l.end2 == 3, (l.beg2, l.end2)
l = g.dovetails[1]
assert l.beg2 == 16 and l.end2 == 20 and gfapy.islastpos(l.end2), (l.beg2, l.end2)
print("ok")
