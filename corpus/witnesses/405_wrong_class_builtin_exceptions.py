import gfapy
import sys

failures = []

def only_gfapy_errors(label, fn):
  """fn may succeed or raise a gfapy.Error; returns the exception or None"""
  try:
    fn()
  except gfapy.Error as e:
    return e
  except Exception as e:
    failures.append("{}: raised builtin {}: {}".format(
      label, type(e).__name__, str(e).split("\n")[-1][:70]))
    return e
  return None

def expect_type_error(label, fn):
  try:
    fn()
  except gfapy.TypeError:
    return
  except Exception as e:
    failures.append("{}: raised {}.{} instead of gfapy.TypeError".format(
      label, type(e).__module__, type(e).__name__))
    return
  failures.append("{}: no error raised".format(label))

# (line, version, field, datatype)
FIELDS = [
  ("S\tA\t*\txz:Z:abc", "gfa1", "xz", "Z"),
  ("S\tA\t*\txa:A:a", "gfa1", "xa", "A"),
  ("S\tA\t*\txh:H:0A", "gfa1", "xh", "H"),
  ("S\tA\t*\txj:J:[1]", "gfa1", "xj", "J"),
  ("S\tA\t*\txb:B:c,1", "gfa1", "xb", "B"),
  ("S\tA\t*\txi:i:1", "gfa1", "xi", "i"),
  ("S\tA\t*\txf:f:1.0", "gfa1", "xf", "f"),
  ("S\tA\t*", "gfa1", "name", "segment_name_gfa1"),
  ("S\tA\t*", "gfa1", "sequence", "sequence_gfa1"),
  ("L\tA\t+\tB\t-\t3M", "gfa1", "overlap", "alignment_gfa1"),
  ("L\tA\t+\tB\t-\t3M", "gfa1", "from_orient", "orientation"),
  ("C\tA\t+\tB\t+\t1\t*", "gfa1", "pos", "position_gfa1"),
  ("P\tp\tA+,B-\t3M", "gfa1", "path_name", "path_name_gfa1"),
  ("P\tp\tA+,B-\t3M", "gfa1", "segment_names", "oriented_identifier_list_gfa1"),
  ("P\tp\tA+,B-\t3M", "gfa1", "overlaps", "alignment_list_gfa1"),
  ("S\tA\t10\t*", "gfa2", "sid", "identifier_gfa2"),
  ("S\tA\t10\t*", "gfa2", "slen", "i"),
  ("S\tA\t10\t*", "gfa2", "sequence", "sequence_gfa2"),
  ("E\te\tA+\tB-\t0\t3\t7\t10$\t3M", "gfa2", "eid", "optional_identifier_gfa2"),
  ("E\te\tA+\tB-\t0\t3\t7\t10$\t3M", "gfa2", "sid1", "oriented_identifier_gfa2"),
  ("E\te\tA+\tB-\t0\t3\t7\t10$\t3M", "gfa2", "beg1", "position_gfa2"),
  ("E\te\tA+\tB-\t0\t3\t7\t10$\t3M", "gfa2", "alignment", "alignment_gfa2"),
  ("G\tg\tA+\tB-\t10\t*", "gfa2", "var", "optional_integer"),
  ("O\to\tA+ B-", "gfa2", "items", "oriented_identifier_list_gfa2"),
  ("U\tu\tA B", "gfa2", "items", "identifier_list_gfa2"),
  ("X\ta\tb", "gfa2", "field1", "generic"),
  ("X\ta\tb", "gfa2", "record_type", "custom_record_type"),
  ("# hello", "gfa1", "content", "comment"),
]

def wrong_values():
  return [5, 1.5, [1], ["a"], [[1, 2]], {"a": 1}, b"ab", (1, 2), {1, 2},
          [b"x"], [object()], {"a": object()}, object(),
          gfapy.Line("S\tX\t*"), [gfapy.Line("S\tX\t*")],
          gfapy.Trace([1, 2]), gfapy.Placeholder(), gfapy.LastPos(3),
          gfapy.OrientedLine("A", "+"), gfapy.ByteArray([1]),
          gfapy.NumericArray([1, 2])]

# 1. values of any class: each operation either succeeds or raises an
#    exception derived from gfapy.Error
for line, version, field, datatype in FIELDS:
  for i in range(len(wrong_values())):
    value = wrong_values()[i]
    label = "{} {!r:.30}".format(datatype, value)
    l = gfapy.Line(line, version=version, vlevel=3)
    assert l.get_datatype(field) == datatype, (field, l.get_datatype(field))
    only_gfapy_errors(label + ": set at vlevel 3",
                      lambda: l.set(field, value))
    for vlevel in [0, 2]:
      l = gfapy.Line(line, version=version, vlevel=vlevel)
      l.set(field, value)
      e1 = only_gfapy_errors(label + ": validate_field at vlevel {}".format(
             vlevel), lambda: l.validate_field(field))
      if field == "record_type":
        # not handled by validate() and str() as the other fields
        continue
      only_gfapy_errors(label + ": validate at vlevel {}".format(vlevel),
                        lambda: l.validate())
      if vlevel >= 2:
        e2 = only_gfapy_errors(label + ": field_to_s at vlevel 2",
                               lambda: l.field_to_s(field))
        if e1 is None and e2 is not None:
          failures.append(label + ": validate_field passes, field_to_s fails")
      only_gfapy_errors(label + ": str at vlevel {}".format(vlevel),
                        lambda: str(l))

# 2. the reported cases must be gfapy.TypeError
CASES = [
  ("S\tA\t*\txz:Z:abc", "gfa1", "xz", 12),
  ("S\tA\t*\txa:A:a", "gfa1", "xa", 12),
  ("S\tA\t*\txh:H:0A", "gfa1", "xh", 1.5),
  ("L\tA\t+\tB\t-\t3M", "gfa1", "overlap", 5),
  ("E\te\tA+\tB-\t0\t3\t7\t10$\t3M", "gfa2", "alignment", 1.5),
  ("# hello", "gfa1", "content", 5),
  ("X\ta\tb", "gfa2", "field1", 5),
  ("X\ta\tb", "gfa2", "record_type", 5),
  ("C\tA\t+\tB\t+\t1\t*", "gfa1", "pos", [1]),
  ("P\tp\tA+,B-\t3M", "gfa1", "segment_names", 5),
  ("O\to\tA+ B-", "gfa2", "items", 5),
  ("S\tA\t*\txj:J:[1]", "gfa1", "xj", [b"x"]),
]
for line, version, field, value in CASES:
  label = "{} {} = {!r}".format(line.split("\t")[0], field, value)
  l = gfapy.Line(line, version=version, vlevel=3)
  before = str(l)
  expect_type_error(label + ": set at vlevel 3", lambda: l.set(field, value))
  if str(l) != before:
    failures.append(label + ": rejected assignment changed the line")
  for vlevel in [0, 1, 2]:
    l = gfapy.Line(line, version=version, vlevel=vlevel)
    l.set(field, value)
    expect_type_error(label + ": validate_field at vlevel {}".format(vlevel),
                      lambda: l.validate_field(field))
    if field != "record_type":
      expect_type_error(label + ": validate at vlevel {}".format(vlevel),
                        lambda: l.validate())
    if vlevel >= 2:
      expect_type_error(label + ": field_to_s at vlevel {}".format(vlevel),
                        lambda: l.field_to_s(field))

# 3. valid decoded values are still accepted at every level
VALID = [
  ("S\tA\t*\txz:Z:abc", "gfa1", "xz", "a b", "a b"),
  ("S\tA\t*\txa:A:a", "gfa1", "xa", "b", "b"),
  ("S\tA\t*\txh:H:0A", "gfa1", "xh", gfapy.ByteArray([1, 255]), "01FF"),
  ("S\tA\t*\txh:H:0A", "gfa1", "xh", [1, 255], "01FF"),
  ("S\tA\t*\txj:J:[1]", "gfa1", "xj", {"a": [1, None, "x"]},
     '{"a": [1, null, "x"]}'),
  ("L\tA\t+\tB\t-\t3M", "gfa1", "overlap", gfapy.Alignment("4M1I"), "4M1I"),
  ("L\tA\t+\tB\t-\t3M", "gfa1", "overlap", gfapy.Placeholder(), "*"),
  ("E\te\tA+\tB-\t0\t3\t7\t10$\t3M", "gfa2", "alignment",
     gfapy.Alignment("1,2,3"), "1,2,3"),
  ("E\te\tA+\tB-\t0\t3\t7\t10$\t3M", "gfa2", "alignment",
     gfapy.Alignment("4M"), "4M"),
  ("E\te\tA+\tB-\t0\t3\t7\t10$\t3M", "gfa2", "alignment",
     gfapy.AlignmentPlaceholder(), "*"),
  ("# hello", "gfa1", "content", "a\tb", "a\tb"),
  ("X\ta\tb", "gfa2", "field1", "c d", "c d"),
  ("X\ta\tb", "gfa2", "record_type", "Y", "Y"),
  ("C\tA\t+\tB\t+\t1\t*", "gfa1", "pos", 7, "7"),
  ("P\tp\tA+,B-\t3M", "gfa1", "path_name", "q", "q"),
  ("P\tp\tA+,B-\t3M", "gfa1", "segment_names",
     [gfapy.OrientedLine("C", "+"), "D-"], "C+,D-"),
  ("P\tp\tA+,B-\t3M", "gfa1", "segment_names",
     ["C+", ["E", "-"]], "C+,E-"),
  ("P\tp\tA+,B-\t3M", "gfa1", "overlaps",
     [gfapy.Alignment("2M")], "2M"),
  ("O\to\tA+ B-", "gfa2", "items",
     [gfapy.OrientedLine("C", "+"), gfapy.OrientedLine("D", "-")], "C+ D-"),
  ("E\te\tA+\tB-\t0\t3\t7\t10$\t3M", "gfa2", "eid", gfapy.Placeholder(), "*"),
]
for line, version, field, value, expected in VALID:
  for vlevel in [0, 1, 2, 3]:
    label = "{} {} = {!r} at vlevel {}".format(
      line.split("\t")[0], field, value, vlevel)
    try:
      l = gfapy.Line(line, version=version, vlevel=vlevel)
      l.set(field, value)
      l.validate_field(field)
      l.validate()
      s = l.field_to_s(field)
      assert s == expected, s
      assert "INVALID" not in str(l), str(l)
    except Exception as e:
      failures.append("valid assignment rejected: {}: {!r}".format(label, e))

if failures:
  print("\n".join(failures))
  print("{} failures".format(len(failures)))
  sys.exit(1)
