import gfapy
import sys

failures = []

# a line whose first field only *begins* with H is not a header line
for vl in [0, 1, 2, 3]:
  try:
    g = gfapy.Gfa("HVN:Z:1.0\nS\tA\t*", vlevel=vl)
  except gfapy.Error:
    continue
  except Exception as e:
    failures.append("HVN vlevel={}: foreign exception {!r}".format(vl, e))
    continue
  if "HVN:Z:1.0" not in str(g):
    failures.append("HVN vlevel={}: line silently dropped: {!r}".format(vl, str(g)))

# first field beginning with S is not a segment
for dialect in ["rgfa", "standard"]:
  for text in ["Ss1\tx\ty", "Ss1\tx\ty\nS\tA\t*", "S\tA\t*\nSs1\tx\ty",
               "Sx\tA\t10\t*", "S\tA\t10\t*\nSx\tA\t10\t*",
               "E1\t*\tA+\tB+\t0\t1\t0\t1\t*", "Lx\tA\t+\tB\t+\t*",
               "Hx\tVN:Z:1.0\nS\tA\t*"]:
    try:
      g = gfapy.Gfa(text, dialect=dialect)
      str(g)
    except gfapy.Error:
      continue
    except Exception as e:
      failures.append("{!r} dialect={}: foreign exception {!r}".format(text, dialect, e))
      continue
    for l in text.split("\n"):
      if l not in str(g).split("\n"):
        failures.append("{!r} dialect={}: line {!r} lost: {!r}".format(text, dialect, l, str(g)))

# custom records in GFA2 whose type begins with a standard letter
g = gfapy.Gfa("Sx\tA\t10\t*\nS\tA\t10\t*")
assert [str(l) for l in g.custom_records] == ["Sx\tA\t10\t*"], g.custom_records
assert g.segment_names == ["A"]
g = gfapy.Gfa("S\tA\t10\t*\nHx\tVN:Z:1.0")
assert g.version == "gfa2" and len(g.custom_records) == 1
g = gfapy.Gfa("Hx\tVN:Z:1.0\nS\tA\t10\t*")
assert g.version == "gfa2" and len(g.custom_records) == 1
# comments and ordinary lines are unaffected
g = gfapy.Gfa("#comment\n# c\tx\nH\tVN:Z:1.0\nS\tA\t*")
assert g.version == "gfa1" and len(g.comments) == 2

if failures:
  print("\n".join(failures))
  sys.exit(1)
print("ok")
