import gfapy
pass
g = gfapy.Gfa("S\tA\t*\nS\tB\t*\nS\tC\t*\nL\tA\t+\tB\t+\t*\nL\tA\t+\tC\t+\t*")
g.rm("A")
assert len(g.dovetails) == 0, [str(x) for x in g.dovetails]
assert sorted(g.segment_names) == ["B", "C"], g.segment_names
g2 = gfapy.Gfa(str(g), vlevel=3)
g2.validate()
assert sorted(g2.segment_names) == ["B", "C"], g2.segment_names
# more dependants: links, containment, path
g = gfapy.Gfa("S\tA\t*\nS\tB\t*\nS\tC\t*\nS\tD\t*\nL\tA\t+\tB\t+\t*\nL\tA\t+\tC\t+\t*\nL\tA\t+\tD\t+\t*\n"
              "C\tA\t+\tB\t+\t0\t*\nC\tA\t+\tC\t+\t0\t*\nP\tp1\tA+,B+\t*\nP\tp2\tA+,C+\t*")
g.rm("A")
assert len(g.edges) == 0 and len(g.paths) == 0, str(g)
assert sorted(g.segment_names) == ["B", "C", "D"]
# cascade: groups of groups depending on the same segment
g = gfapy.Gfa("S\tA\t10\t*\nS\tB\t10\t*\nU\tu1\tA B\nU\tu2\tA u1\nU\tu3\tA u2 u1\n"
              "O\to1\tA+ B+\nO\to2\tA+ o1+\nE\t*\tA+\tB+\t0\t10$\t0\t10$\t*")
g.rm("A")
assert str(g) == "S\tB\t10\t*", str(g)
print("ok")
