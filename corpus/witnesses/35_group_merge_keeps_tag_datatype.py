import gfapy
S = ["S\tA\t4\t*", "S\tB\t4\t*"]
for tag in ["xx:A:a", "xx:J:[1,2]", "xx:J:[]", "xx:H:0A", "xx:Z:5"]:
  g = gfapy.Gfa(S + ["U\tu1\tA\t" + tag, "U\tu1\tB"])
  assert str(g.line("u1")) == "U\tu1\tA B\t" + tag.replace("[1,2]", "[1, 2]"), str(g.line("u1"))
  g2 = gfapy.Gfa(S + ["U\tu1\tB", "U\tu1\tA\t" + tag])
  assert str(g2.line("u1")).endswith(tag.replace("[1,2]", "[1, 2]")), str(g2.line("u1"))
print("ok")
