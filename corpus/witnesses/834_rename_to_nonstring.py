"""C07/C08: renaming a connected line to a non-string value at vlevel 0 -> AttributeError, line lost."""
import sys, gfapy
bad = 0
for lvl in (0, 1, 2, 3):
    g = gfapy.Gfa(["S\ta\t*", "S\tb\t*", "L\ta\t+\tb\t+\t*\tID:Z:l1"], vlevel=lvl)
    before = str(g)
    for who, val in ((g.segment("a"), 5), (g.line("l1"), [1]), (g.segment("b"), 1.5)):
        try:
            who.name = val
            bad += 1; print("FAIL accepted", lvl, val)
        except gfapy.Error:
            pass
        except Exception as e:
            bad += 1; print("FAIL foreign", lvl, val, type(e).__name__)
    if str(g) != before:
        bad += 1; print("FAIL changed", lvl, repr(str(g)))
sys.exit(1 if bad else 0)
