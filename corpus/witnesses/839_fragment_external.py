"""C08/C07: fragment.external = None (levels 0-3) or a value that is no oriented identifier (level 0): the F line is
unregistered, then registering it again raises the builtin AttributeError / a FormatError: the fragment is lost."""
import sys, gfapy
bad = 0
for lvl in (0, 1, 2, 3):
    for val in (None, "*", 5, "", "read3", ["a", "+"]):
        g = gfapy.Gfa(version="gfa2", vlevel=lvl)
        g.add_line("S\ts1\t100\t*"); g.add_line("F\ts1\tread1+\t0\t10\t0\t10\t*")
        f = g.fragments[0]; before = str(g)
        try:
            f.set("external", val)
            bad += 1; print("FAIL accepted", lvl, repr(val))
        except gfapy.Error:
            pass
        except Exception as e:
            bad += 1; print("FAIL foreign", lvl, repr(val), type(e).__name__)
        if str(g) != before or g.fragments != [f] or not f.is_connected():
            bad += 1; print("FAIL changed", lvl, repr(val), repr(str(g)))
    # a legal value is taken
    g = gfapy.Gfa(version="gfa2", vlevel=lvl)
    g.add_line("S\ts1\t100\t*"); g.add_line("F\ts1\tread1+\t0\t10\t0\t10\t*")
    g.fragments[0].set("external", "r3-")
    if str(g).split("\n")[-1] != "F\ts1\tr3-\t0\t10\t0\t10\t*" or g.external_names != ["r3"]:
        bad += 1; print("FAIL legal", lvl, repr(str(g)), g.external_names)
sys.exit(1 if bad else 0)
