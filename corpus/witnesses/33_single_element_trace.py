import gfapy
l = gfapy.Line("E\t*\tA+\tB+\t0\t3\t0\t3$\t3\tTS:i:5")
assert isinstance(l.alignment, gfapy.Trace) and list(l.alignment) == [3]
assert str(l) == "E\t*\tA+\tB+\t0\t3\t0\t3$\t3\tTS:i:5"
assert str(gfapy.Alignment("12", version="gfa2")) == "12"
for bad in ["", "12"]:
  try:
    gfapy.Alignment(bad, version="gfa1")
    raise AssertionError(bad)
  except gfapy.Error:
    pass
print("ok")
