import gfapy
# a hairpin link on the distributed end is listed twice in dovetails_of_end;
# it must be disconnected only once

g = gfapy.Gfa(["S\tA\tGAGCTGC", "L\tA\t-\tA\t+\t6M"])
g.multiply("A", 3, distribute="L")
assert sorted(g.segment_names) == ["A", "A*2", "A*3"], g.segment_names
for l in g.dovetails:
  assert l.is_connected()
  # no link invented: each remaining link is a hairpin on the L end of a copy
  assert l.from_segment.name == l.to_segment.name
  assert l.from_end == l.to_end and l.from_end.end_type == "L"
assert 1 <= len(g.dovetails) <= 3
g.validate()

g = gfapy.Gfa(["S\tA\tGAGCTGC\tcn:i:2", "L\tA\t+\tA\t-\t*"])
g.apply_copy_numbers()
assert len(g.segments) == 2
g.validate()

# hairpin and other links on the distributed end
g = gfapy.Gfa(["S\tA\tGAGCTGC", "S\tB\tGAGCTGC", "S\tC\tGAGCTGC",
               "L\tA\t+\tA\t-\t*", "L\tA\t+\tB\t+\t*", "L\tA\t+\tC\t+\t*"])
g.multiply("A", 4, distribute="R")
assert len(g.segments) == 6
for n in ["B", "C"]:
  assert len(g.segment(n).dovetails_L) >= 1
g.validate()
