import gfapy
import sys

failures = []
for name in ["record_type", "__class__", "vlevel", "from_segment", "_data",
             "version", "virtual", "tagnames", "get", "set", "x", "abc", "1a"]:
  for text in ["H\txx:i:1", "S\tA\t*", "L\tA\t+\tB\t+\t*"]:
    l = gfapy.Line(text, vlevel=0)
    if name in l.positional_fieldnames:
      continue
    before = str(l)
    try:
      l.set(name, "x")
    except gfapy.FormatError:
      pass
    except Exception as e:
      failures.append("{!r}.set({!r}): {!r}".format(text, name, e))
      continue
    try:
      if l.vlevel != 0:
        failures.append("{!r}.set({!r}): vlevel is now {!r}".format(text, name, l.vlevel))
      after = str(l)
      if after != before and after != before + "\t{}:Z:x".format(name):
        failures.append("{!r}.set({!r}): line is now {!r}".format(text, name, after))
      if l.record_type != text[0]:
        failures.append("{!r}.set({!r}): record_type {!r}".format(text, name, l.record_type))
    except Exception as e:
      failures.append("{!r}.set({!r}) then str: {!r}".format(text, name, e))

# valid custom tags can still be set at vlevel 0
l = gfapy.Line("H\txx:i:1", vlevel=0)
l.set("ab", 12)
l.set("z1", "s")
l.yy = 1.5
assert str(l) == "H\txx:i:1\tab:i:12\tz1:Z:s\tyy:f:1.5", str(l)
assert l.ab == 12
l.set("VN", "1.0")
assert l.VN == "1.0"

if failures:
  print("\n".join(failures))
  sys.exit(1)
print("ok")
