import gfapy
import sys

ERR = (gfapy.ValueError, gfapy.FormatError, gfapy.InconsistencyError)
failures = []

def must_raise(label, f):
  try:
    f()
  except ERR:
    return
  except Exception as e:
    failures.append("{}: wrong exception {!r}".format(label, e))
    return
  failures.append("{}: accepted".format(label))

for vl in [1, 2, 3]:
  must_raise("E beg1>end1 vlevel={}".format(vl),
      lambda: gfapy.Line("E\t*\tA+\tB-\t3\t1\t0\t1\t*", vlevel=vl))
  must_raise("E beg2>end2 vlevel={}".format(vl),
      lambda: gfapy.Line("E\t*\tA+\tB-\t0\t1\t4\t2\t*", vlevel=vl))
  must_raise("F s_beg>s_end vlevel={}".format(vl),
      lambda: gfapy.Line("F\tA\tr+\t2\t0\t0\t1\t*", vlevel=vl))
  must_raise("F f_beg>f_end vlevel={}".format(vl),
      lambda: gfapy.Line("F\tA\tr+\t0\t2\t5\t1\t*", vlevel=vl))
must_raise("E validate() vlevel=0",
    lambda: gfapy.Line("E\t*\tA+\tB-\t3\t1\t0\t1\t*", vlevel=0).validate())
must_raise("F validate() vlevel=0",
    lambda: gfapy.Line("F\tA\tr+\t2\t0\t0\t1\t*", vlevel=0).validate())
must_raise("Gfa F vlevel=3",
    lambda: gfapy.Gfa("S\tA\t4\t*\nF\tA\tr+\t2\t0\t0\t1\t*", vlevel=3))
must_raise("E 5$ > 3",
    lambda: gfapy.Line("E\t*\tA+\tB-\t5$\t3\t0\t1\t*"))

# valid lines must still be accepted
gfapy.Line("E\t*\tA+\tB-\t1\t1\t0\t1\t*").validate()
gfapy.Line("E\t*\tA+\tB-\t0\t4$\t4$\t4$\t*").validate()
gfapy.Line("F\tA\tr+\t0\t2\t1\t1$\t*").validate()
gfapy.Gfa("S\tA\t4\t*\nF\tA\tr+\t0\t4$\t0\t1\t*", vlevel=3)

if failures:
  print("\n".join(failures))
  sys.exit(1)
print("ok")
