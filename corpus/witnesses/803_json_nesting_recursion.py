"""C07: a deeply nested list assigned to a J tag makes str(line) and validate() raise RecursionError."""
import sys, gfapy
v = []
for _ in range(3000):
    v = [v]
bad = []
for vl in (0, 1, 2, 3):
    l = gfapy.Line("S\tA\t*\txj:J:[1]", vlevel=0)
    try:
        l.set("xj", v)
    except gfapy.Error:
        continue
    except Exception as e:
        bad.append("set: " + type(e).__name__); continue
    for name, f in (("str", lambda: str(l)), ("validate", lambda: l.validate()), ("to_list", lambda: l.to_list())):
        try:
            f()
        except gfapy.Error:
            pass
        except Exception as e:
            bad.append("%s: %s" % (name, type(e).__name__))
text = "S\tA\t*\txj:J:" + "[" * 3000 + "]" * 3000
for vl in (0, 1, 2, 3):
    try:
        l = gfapy.Line(text, vlevel=vl); l.xj; str(l); l.validate()
    except gfapy.Error:
        pass
    except Exception as e:
        bad.append("text vlevel %d: %s" % (vl, type(e).__name__))
if bad:
    print(sorted(set(bad))); sys.exit(1)
print("ok")
