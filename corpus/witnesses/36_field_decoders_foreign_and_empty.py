import gfapy
def refused(text, **kw):
  try:
    gfapy.Line(text, **kw)
  except gfapy.Error:
    return True
  return False
# a path segment list whose elements are not oriented names (the name would contain the separator)
assert refused("P\tp\t,+\t*")
assert refused("P\tp\ta,+\t*")
assert refused("P\tp\ta+,,+\t*")
assert not refused("P\tp\ta+,b-\t*")
# empty oriented identifier
assert refused("E\t*\t\tB+\t0\t1\t0\t1\t*")
assert refused("G\t*\tA+\t\t10\t*")
# numeric array without values
for st in "cCsSiIf":
  assert refused("S\tA\t*\txx:B:" + st)
assert not refused("S\tA\t*\txx:B:c,1")
print("ok")
