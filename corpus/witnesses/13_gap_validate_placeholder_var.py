import gfapy
pass
for vlevel in [0, 1, 2, 3]:
  for s in ["G\tg\tA+\tB+\t10\t*", "G\t*\tA+\tB-\t100\t*", "G\tg\tA+\tB+\t10\t5"]:
    l = gfapy.Line(s, vlevel=vlevel)
    l.validate()
    assert str(l) == s
    assert gfapy.is_placeholder(l.var) == s.endswith("*")
gfapy.Field._validate_gfa_field(gfapy.Placeholder(), "optional_integer")
gfapy.Field._validate_gfa_field(5, "optional_integer")
try:
  gfapy.Field._validate_gfa_field(5.5, "optional_integer")
except gfapy.TypeError:
  pass
else:
  raise AssertionError("float accepted as optional integer")
g = gfapy.Gfa("S\tA\t10\t*\nS\tB\t10\t*\nG\tg\tA+\tB+\t10\t*", vlevel=3)
g.validate()
g.line("g").var = gfapy.Placeholder()
g.line("g").var = 7
assert str(g.line("g")) == "G\tg\tA+\tB+\t10\t7"
print("ok")
