"""C09: a line that mentions its own identifier (E e9 C+ e9- ...) is accepted next to a placeholder with the same name."""
import sys, gfapy
bad = []
for ver, l in (('gfa2', 'O\tp\tp+ A+'), ('gfa2', 'U\tu\tu A'), ('gfa2', 'G\tg\tg+\tA+\t10\t*'), ('gfa1', 'L\tA\t+\tk\t+\t*\tID:Z:k'),
               ('gfa1', 'P\tp\tp+,A+\t*'), ('gfa1', 'C\tk\t+\tA\t+\t0\t*\tID:Z:k'), ('gfa2', 'E\te9\tC+\te9-\t0\t5\t5\t10$\t*')):
    g = gfapy.Gfa(version=ver, vlevel=1)
    try:
        g.add_line(l)
    except gfapy.Error:
        pass
    names = [str(n) for n in g.names] + [str(x.name) for x in g.lines if x.record_type == "\n"]
    if len(names) != len(set(names)):
        bad.append("%r: identifiers %r" % (l, names))
if bad:
    print("\n".join(bad)); sys.exit(1)
print("ok")
