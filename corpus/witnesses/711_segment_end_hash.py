import gfapy
import sys

failures = []
def check(label, f, expected):
  try:
    r = f()
  except Exception as e:
    failures.append("{}: {!r}".format(label, e))
    return
  if r != expected:
    failures.append("{}: {!r} expected, got {!r}".format(label, expected, r))

# A - B - C chain plus a triangle D E F
lines = ["S\tA\t*\tLN:i:10", "S\tB\t*\tLN:i:10", "S\tC\t*\tLN:i:10",
         "S\tD\t*\tLN:i:10", "S\tE\t*\tLN:i:10", "S\tF\t*\tLN:i:10",
         "L\tA\t+\tB\t+\t2M", "L\tB\t+\tC\t+\t2M",
         "L\tD\t+\tE\t+\t2M", "L\tE\t+\tF\t+\t2M", "L\tF\t+\tD\t+\t2M"]
g1 = gfapy.Gfa(lines)
g2 = gfapy.Gfa(gfapy.Gfa(lines).to_gfa2_s())
for label, g in [("gfa1", g1), ("gfa2", g2)]:
  check(label + " is_cut_segment(B)", lambda: g.is_cut_segment("B"), True)
  check(label + " is_cut_segment(segment B)", lambda: g.is_cut_segment(g.segment("B")), True)
  check(label + " is_cut_segment(A)", lambda: g.is_cut_segment("A"), False)
  check(label + " is_cut_segment(E)", lambda: g.is_cut_segment("E"), False)

# two neighbours connected with each other at the ends facing B;
# a segment with a self-loop; two links at the same end
lines2 = ["S\tA\t*\tLN:i:10", "S\tB\t*\tLN:i:10", "S\tC\t*\tLN:i:10",
          "S\tD\t*\tLN:i:10",
          "L\tA\t+\tB\t+\t2M", "L\tB\t+\tC\t+\t2M", "L\tA\t+\tC\t-\t2M",
          "L\tB\t+\tB\t+\t2M", "L\tC\t+\tD\t+\t2M", "L\tC\t+\tD\t-\t2M"]
g = gfapy.Gfa(lines2)
check("is_cut_segment(B) neighbours connected", lambda: g.is_cut_segment("B"), False)
check("is_cut_segment(C)", lambda: g.is_cut_segment("C"), True)
check("is_cut_segment(A)", lambda: g.is_cut_segment("A"), False)
g = gfapy.Gfa(["S\tA\t*", "S\tB\t*", "S\tC\t*",
               "L\tB\t+\tA\t+\t*", "L\tB\t+\tC\t+\t*"])
check("is_cut_segment(B) both links at the same end", lambda: g.is_cut_segment("B"), True)
ncc = len(g.connected_components())
g.rm("B")
check("components after rm(B)", lambda: len(g.connected_components()), ncc + 1)

# hash consistent with ==
a = gfapy.SegmentEnd("A", "L")
b = gfapy.SegmentEnd(g1.segment("A"), "L")
check("eq", lambda: a == b, True)
check("hash", lambda: hash(a) == hash(b), True)
check("set", lambda: len(set([a, b, gfapy.SegmentEnd("A", "R")])), 2)
check("in set", lambda: gfapy.SegmentEnd("A", "R").inverted() in set([b]), True)
check("hash str", lambda: hash(a) == hash("AL") and a == "AL", True)

if failures:
  print("\n".join(failures))
  sys.exit(1)
print("ok")
