"""C09/C07: `link.delete("ID")` keeps `line("l1")`; a later rm(link) raises KeyError."""
import sys, gfapy
g = gfapy.Gfa(version="gfa1")
for l in ["S\tA\t*", "S\tB\t*", "L\tA\t+\tB\t+\t*\tID:Z:l1"]:
    g.add_line(l)
l = g.line("l1")
l.delete("ID")
if g.line("l1") is not None or "l1" in g.names:
    print("still registered:", g.names); sys.exit(1)
try:
    g.rm(l)
except gfapy.Error:
    pass
except Exception as e:
    print("foreign", type(e).__name__); sys.exit(1)
print("ok")
