"""C07: `S 111...1 *` with 5000 digits raises ValueError (int() limit)."""
import sys, gfapy
for vl, name in ((1, "1" * 5000), (0, "\u00b2")):
    g = gfapy.Gfa(version="gfa1", vlevel=vl)
    try:
        g.add_line("S\t" + name + "\t*")
    except gfapy.Error:
        pass
    except Exception as e:
        print("foreign", type(e).__name__); sys.exit(1)
print("ok")
