import gfapy
s = "X\ta\tb\txx:i:1\tyy:Z:q\tzz:i:2"
assert str(gfapy.Line(s, version="gfa2")) == s, str(gfapy.Line(s, version="gfa2"))
g = gfapy.Gfa("S\tA\t1\t*\n" + s)
assert str(g).split("\n")[-1] == s
assert gfapy.Line(s, version="gfa2").tagnames == ["xx", "yy", "zz"]
print("ok")
