import gfapy, tempfile, os
pass
def expect_format_error(f, what):
  try:
    f()
  except gfapy.FormatError:
    return
  except Exception as e:
    raise AssertionError("{}: {} {}".format(what, type(e).__name__, e))
  raise AssertionError("{}: accepted".format(what))
for version in [None, "gfa1", "gfa2"]:
  for txt in ["S\tA\t*\n\n", "\nS\tA\t*", "S\tA\t*\n\nS\tB\t*", ""]:
    if version == "gfa2":
      txt = txt.replace("\t*", "\t1\t*")
    if txt != "":
      expect_format_error(lambda: gfapy.Gfa(txt, version=version), repr((version, txt)))
    else:
      # the empty string is the empty document (what str() of an empty Gfa writes), not a document of one empty line
      assert gfapy.Gfa(txt, version=version).lines == []
    expect_format_error(lambda: gfapy.Gfa(txt.split("\n"), version=version), repr((version, txt)))
    fd, path = tempfile.mkstemp()
    with os.fdopen(fd, "w") as f:
      f.write(txt+"\n")
    try:
      expect_format_error(lambda: gfapy.Gfa.from_file(path, version=version), "file "+repr((version, txt)))
    finally:
      os.unlink(path)
  g = gfapy.Gfa(version=version)
  expect_format_error(lambda: g.add_line(""), "add_line('') {}".format(version))
  assert g.lines == [] and g._line_queue == []
  g.add_line(None) # documented no-op
g = gfapy.Gfa("S\tA\t*")
expect_format_error(lambda: g.add_line(""), "add_line")
assert str(g) == "S\tA\t*"
print("ok")
