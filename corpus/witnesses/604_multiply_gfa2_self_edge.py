import gfapy
# multiply / apply_copy_numbers of a segment with an unnamed GFA2 self-edge

def gfa(lines):
  return gfapy.Gfa(["\t".join(l.split()) for l in lines], version="gfa2")

g = gfa(["S D 10 *", "E * D- D- 5 10$ 0 5 5M"])
g.multiply("D", 2)
assert sorted(g.segment_names) == ["D*2", "D"] or \
       sorted(g.segment_names) == ["D", "D*2"], g.segment_names
assert len(g.edges) == 2, [str(e) for e in g.edges]
assert sorted((e.sid1.name, e.sid2.name) for e in g.edges) == \
       [("D", "D"), ("D*2", "D*2")]
g.validate()

# two parallel self-edges with the same content are two distinct lines
g = gfa(["S D 10 * KC:i:40", "E * D+ D+ 5 10$ 0 5 5M KC:i:8",
         "E * D+ D+ 5 10$ 0 5 5M KC:i:8"])
g.multiply("D", 2)
assert len(g.edges) == 4, [str(e) for e in g.edges]
assert all(e.KC == 4 for e in g.edges), [str(e) for e in g.edges]

g = gfa(["S D 10 * cn:i:2", "E * D- D- 5 10$ 0 5 5M"])
g.apply_copy_numbers()
assert len(g.segments) == 2 and len(g.edges) == 2

# lines can be hashed, consistently with ==
g = gfa(["S D 10 *", "E * D- D- 5 10$ 0 5 5M", "E x D+ D+ 5 10$ 0 5 5M"])
for e in g.edges:
  assert isinstance(hash(e), int)
  c = e.clone()
  assert c == e and hash(c) == hash(e)
assert len(set(g.edges)) == 2
