import gfapy
pass
g = gfapy.Gfa()
g.add_line("L\tA\t+\tB\t+\t*")
g.add_line("L\tA\t+\tB")          # malformed, queued as the version is unknown
g.add_line("L\tA\t+\tC\t+\t*")
g.add_line("P\tp\tA+,B+\t*")
assert g.version is None
try:
  g.add_line("S\tA\t*")
except gfapy.FormatError:
  pass
else:
  raise AssertionError("malformed queued line accepted")
assert g.version == "gfa1"
# the lines before the invalid one have been processed once
assert [str(l) for l in g.dovetails if not l.virtual] == ["L\tA\t+\tB\t+\t*"]
# the instance stays usable: nothing is replayed, the offending line is gone,
# the lines queued after it are still pending and can be processed
g.add_line("S\tA\t*")
g.add_line("S\tB\t*")
g.process_line_queue()
g.add_line("S\tC\t*")
g.process_line_queue()
g.process_line_queue()
assert sorted(str(g).split("\n")) == sorted(["S\tA\t*", "S\tB\t*", "S\tC\t*", "L\tA\t+\tB\t+\t*", "L\tA\t+\tC\t+\t*", "P\tp\tA+,B+\t*"]), str(g)
g.validate()
gfapy.Gfa(str(g), vlevel=3)
# a valid queue is processed exactly once
g = gfapy.Gfa()
g.add_line("L\tA\t+\tB\t+\t*")
g.add_line("S\tA\t*")
g.add_line("S\tB\t*")
g.process_line_queue()
assert len(g.dovetails) == 1 and len(g.lines) == 3
print("ok")
