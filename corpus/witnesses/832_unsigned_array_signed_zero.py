"""C18/C20: 'xx:B:C,-0' accepted when parsed (levels 1-3) but refused by validate()/str() at level 0."""
import sys, gfapy
bad = 0
for lvl in range(4):
    l = gfapy.Line("S\ta\t*\txx:B:C,-0", vlevel=lvl)
    try:
        l.validate()
        if "INVALID" in str(l): raise gfapy.FormatError("written as invalid")
    except gfapy.Error as e:
        bad += 1; print("FAIL level", lvl, type(e).__name__, str(l))
for s in ("C,-1", "I,-5", "S,-00001"):
    try:
        gfapy.Line("S\ta\t*\txx:B:" + s, vlevel=0).validate(); bad += 1; print("FAIL accepted", s)
    except gfapy.Error:
        pass
sys.exit(1 if bad else 0)
