import gfapy
import sys

failures = []
try:
  g = gfapy.Gfa(["H\txx:i:1", "H\txx:i:2"])
  c = g.header.clone()
  if not (c == g.header):
    failures.append("clone of the header is not equal to the header")
  a = g.header.xx
  if not (a == gfapy.FieldArray("i", [1, 2])):
    failures.append("equal field arrays are not ==")
  if a == gfapy.FieldArray("i", [1, 3]):
    failures.append("field arrays with different data are ==")
  if a == gfapy.FieldArray("Z", [1, 2]):
    failures.append("field arrays with different datatype are ==")
  if not (a == [1, 2]) or a == [2, 1]:
    failures.append("comparison with list")
  if a != gfapy.FieldArray("i", [1, 2]):
    failures.append("!= of equal field arrays")
  h2 = gfapy.Gfa(["H\txx:i:1", "H\txx:i:3"]).header
  if h2 == g.header:
    failures.append("different headers are ==")
except Exception as e:
  failures.append(repr(e))
if failures:
  print("\n".join(failures))
  sys.exit(1)
print("ok")
