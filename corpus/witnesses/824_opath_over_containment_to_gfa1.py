"""C06: an ordered group over a containment edge has no GFA1 counterpart; it was written as a P line requiring a link that does not exist."""
import sys, gfapy
g = gfapy.Gfa(["S\ta\t100\t*", "S\tb\t20\t*", "E\te1\ta+\tb+\t10\t30\t0\t20$\t20M", "O\to1\ta+ e1+ b+"], version="gfa2")
g.validate()
bad = 0
for what, fn in (("Gfa.to_gfa1_s", g.to_gfa1_s), ("O.to_gfa1_s", g.line("o1").to_gfa1_s), ("O.to_gfa1", g.line("o1").to_gfa1)):
    try:
        out = str(fn())
    except gfapy.Error as e:
        print("ok  ", what, "refused:", type(e).__name__); continue
    if "P\to1" in out:
        bad += 1; print("FAIL", what, "->", repr(out))
sys.exit(1 if bad else 0)
