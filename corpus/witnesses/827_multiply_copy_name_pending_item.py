"""C15: a copy is named after an identifier that a group lists and whose line has not arrived (not a fresh identifier)."""
import sys, gfapy
g = gfapy.Gfa(version="gfa2")
for l in ["S\tA\t4\tACGT", "S\tB\t4\tACGT", "E\t*\tA+\tB+\t2\t4$\t0\t2\t2M", "U\tu1\tB A*2"]:
    g.add_line(l)
g.multiply("A", 2)
names = [s.name for s in g.segments if not s.virtual]
print(names)
if "A*2" in names:
    print("FAIL: the copy took the name the set is waiting for"); sys.exit(1)
g.add_line("S\tA*2\t7\tGGGGGGG")
sys.exit(0)
