import gfapy
import sys

failures = []
g1 = gfapy.Gfa(["S\tA\t*\tLN:i:10", "S\tB\t*\tLN:i:10", "S\tC\t*\tLN:i:10",
                "L\tA\t+\tB\t+\t2M\tID:Z:ab", "L\tB\t+\tC\t-\t2M\tID:Z:bc",
                "C\tB\t+\tC\t+\t1\t3M\tID:Z:cc"])
g2 = gfapy.Gfa(gfapy.Gfa(str(g1)).to_gfa2_s())
for label, g in [("gfa1", g1), ("gfa2", g2)]:
  b = g.segment("B")
  def rel(orient, other, oorient, **kw):
    return sorted(e.name for e in b.oriented_relations(orient,
               gfapy.OrientedLine(g.segment(other), oorient), **kw))
  for args, kw, exp in [(("+", "C", "-"), {}, ["bc"]),
                        (("+", "C", "+"), {}, ["cc"]),
                        (("+", "A", "+"), {}, ["ab"]),
                        (("-", "A", "+"), {}, []),
                        (("+", "C", "-"), {"collection": "dovetails"}, ["bc"]),
                        (("+", "C", "+"), {"collection": "dovetails"}, [])]:
    try:
      r = rel(*args, **kw)
      if r != exp:
        failures.append("{} oriented_relations{}{}: {!r} expected, got {!r}".format(label, args, kw, exp, r))
    except Exception as e:
      failures.append("{} oriented_relations{}{}: {!r}".format(label, args, kw, e))

# other_oriented_segment: NotFoundError unless tolerant
e = g2.line("ab")
try:
  e.other_oriented_segment(gfapy.OrientedLine(g2.segment("C"), "+"))
  failures.append("no NotFoundError")
except gfapy.NotFoundError:
  pass
try:
  if e.other_oriented_segment(gfapy.OrientedLine(g2.segment("C"), "+"), tolerant=True) is not None:
    failures.append("tolerant: not None")
  if str(e.other_oriented_segment(gfapy.OrientedLine(g2.segment("A"), "+"), tolerant=True)) != "B+":
    failures.append("tolerant: other of A+ is not B+")
except Exception as x:
  failures.append("tolerant: {!r}".format(x))

if failures:
  print("\n".join(failures))
  sys.exit(1)
print("ok")
