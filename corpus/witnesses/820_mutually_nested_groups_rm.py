"""C07/C08: at vlevel 3 rm() of a group that is nested in one of its own items stops half-way (gfapy.TypeError), both groups
stay, and Gfa.validate() then raises AttributeError."""
import sys, gfapy
bad = []
for lines in (["U\tu0\to1", "O\to1\tu0+"], ["O\to1\to3+", "O\to3\to1+"], ["U\tu0\tu1", "U\tu1\tu0"]):
    for vl in (1, 3):
        g = gfapy.Gfa(vlevel=vl, version="gfa2")
        for l in lines:
            g.add_line(l)
        before = sorted(str(x) for x in g.lines)
        failed = False
        try:
            g.rm(lines[0].split("\t")[1])
        except gfapy.Error as e:
            failed = True
            if sorted(str(x) for x in g.lines) != before:
                bad.append("%r vlevel %d: rm raised %s and changed the Gfa" % (lines, vl, type(e).__name__))
        except Exception as e:
            bad.append("%r vlevel %d: rm raised foreign %s" % (lines, vl, type(e).__name__))
        try:
            g.validate(); str(g)
        except gfapy.Error:
            pass
        except Exception as e:
            bad.append("%r vlevel %d: validate/str raised foreign %s" % (lines, vl, type(e).__name__))
if bad:
    print("\n".join(bad)); sys.exit(1)
print("ok")
