import gfapy
pass
for vlevel in [0, 1, 2, 3]:
  for bad in ["E\tbad", "F\tbad", "G\tbad", "U\tu", "O\to", "E\te\tA+\tB+\t0\t1\t0\tx\t*", "S\tA", "S\tA\t1\t2\t3\t4"]:
    g = gfapy.Gfa(vlevel=vlevel)
    try:
      g.add_line(bad)
    except gfapy.FormatError:
      pass
    except IndexError:
      # too few fields at vlevel 0: a separate problem of the Line constructor
      assert vlevel == 0
    else:
      raise AssertionError("accepted: " + bad)
    assert g.version is None, (vlevel, bad, g.version)
    assert g._version_explanation is None, g._version_explanation
    assert g.lines == []
    # the instance is still usable for any version
    g.add_line("S\tA\t*")
    g.add_line("L\tA\t+\tA\t+\t*")
    assert g.version == "gfa1" and len(g.lines) == 2
# valid lines still decide the version
for s in ["E\t*\tA+\tB+\t0\t1\t0\t1\t*", "F\tA\tr+\t0\t1\t0\t1\t*", "G\t*\tA+\tB+\t1\t*", "U\tu\tA", "O\to\tA+", "S\tA\t1\t*"]:
  g = gfapy.Gfa(vlevel=0)
  g.add_line(s)
  assert g.version == "gfa2"
print("ok")
