import gfapy
pass
def expect_format_error(f, what):
  try:
    f()
  except gfapy.FormatError as e:
    return str(e)
  except Exception as e:
    raise AssertionError("{}: {} {}".format(what, type(e).__name__, e))
  raise AssertionError("{}: accepted".format(what))
for vlevel in [1, 2, 3]:
  for s in ["E\t*\tA+\tB+\t$\t$\t0\t0\t*", "E\t*\tA+\tB+\t0\t$\t0\t10$\t*", "E\t*\tA+\tB+\t0\tx$\t0\t10$\t*",
            "F\tA\tr+\t0\t$\t0\t10\t*", "F\tA\tr+\t$\t10$\t0\t10\t*"]:
    expect_format_error(lambda: gfapy.Line(s, vlevel=vlevel), (s, vlevel))
for s in ["$", "x$", "$$", ""]:
  expect_format_error(lambda: gfapy.LastPos(s), s)
expect_format_error(lambda: gfapy.Line("E\t*\tA+\tB+\t$\t$\t0\t0\t*", vlevel=0).validate(), "vlevel0")
assert gfapy.LastPos("12$") == gfapy.LastPos(12) and gfapy.islastpos(gfapy.LastPos("12$"))
assert gfapy.LastPos("12") == 12 and not gfapy.islastpos(gfapy.LastPos("12"))
print("ok")
