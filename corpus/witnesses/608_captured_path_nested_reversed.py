import gfapy
# a nested path referenced with '-' ends with the first segment of the nested
# path: whether that segment was implied by an edge item depends on the first
# item of the nested path, not on the last one

base = ["S|A|10|*", "S|B|8|*", "S|D|10|*",
        "E|e1|B+|A+|6|8$|0|2|2M", "E|e2|D-|B+|0|2|0|2|2M"]

def walk(lines, name):
  g = gfapy.Gfa(["\t".join(l.split("|")) for l in base + lines],
                version="gfa2")
  return " ".join(str(x) for x in g.line(name).captured_path)

control = walk(["O|p5|A- e1- B- D+"], "p5")
assert control == "A- e1- B- e2- D+", control
w = walk(["O|p1|B+ e1+", "O|p5|p1- D+"], "p5")
assert w == control, w

# two levels of nesting
w = walk(["O|p1|B+ e1+", "O|p2|p1+", "O|p5|p2- D+"], "p5")
assert w == control, w
w = walk(["O|p1|B+ e1+", "O|p2|p1-", "O|p3|p2+ D+"], "p3")
assert w == control, w

# the nested path starts with an edge item: reversed, it ends with a
# segment implied by an edge, which can be repeated by the next item
w = walk(["O|p1|e1- B-", "O|p5|p1- A+"], "p5")
assert w == "B+ e1+ A+", w
# forward reference, unchanged behaviour
w = walk(["O|p1|B+ e1+", "O|p5|p1+ A+"], "p5")
assert w == "B+ e1+ A+", w
