import gfapy
pass
for vlevel in [0, 1, 2, 3]:
  for n in [2, 3]:
    txt = "\n".join("H\taa:i:{}".format(i+1) for i in range(n))
    g = gfapy.Gfa(txt, vlevel=vlevel)
    assert g.header.aa == list(range(1, n+1)), (vlevel, g.header.aa)
    assert str(g) == txt, (vlevel, str(g))
    g = gfapy.Gfa(vlevel=vlevel)
    for i in range(n):
      g.header.add("aa", i+1)
    assert str(g) == txt, (vlevel, str(g))
  # datatype mismatch is reported with a gfapy error at vlevel >= 2
  if vlevel >= 2:
    try:
      gfapy.Gfa("H\taa:i:1\nH\taa:Z:x", vlevel=vlevel)
    except gfapy.InconsistencyError:
      pass
    else:
      raise AssertionError("datatype mismatch accepted")
print("ok")
