import gfapy
pass
def merged(txt, **kw):
  g = gfapy.Gfa(txt, **kw)
  g.merge_linear_paths()
  gfapy.Gfa(str(g), vlevel=3).validate()
  return sorted(str(g).split("\n"))
# hairpin at the right end of the chain
assert merged("S\tA\tAA\nS\tB\tCC\nL\tA\t+\tB\t+\t0M\nL\tB\t+\tB\t-\t0M") == \
  ["L\tA_B\t+\tA_B\t-\t0M", "S\tA_B\tAACC\tLN:i:4"]
# longer chain, plus another link at the same end
assert merged("S\tA\tAA\nS\tB\tCC\nS\tC\tGG\nS\tD\tTT\nL\tA\t+\tB\t+\t0M\nL\tB\t+\tC\t+\t0M\nL\tC\t+\tC\t-\t0M\nL\tC\t+\tD\t+\t0M") == \
  ["L\tA_B_C\t+\tA_B_C\t-\t0M", "L\tA_B_C\t+\tD\t+\t0M", "S\tA_B_C\tAACCGG\tLN:i:6", "S\tD\tTT"]
# hairpin at the left end of the chain
assert merged("S\tA\tAA\nS\tB\tCC\nL\tA\t+\tB\t+\t0M\nL\tA\t-\tA\t+\t0M") == \
  ["L\tA_B\t-\tA_B\t+\t0M", "S\tA_B\tAACC\tLN:i:4"]
# hairpins at both ends
assert merged("S\tA\tAA\nS\tB\tCC\nL\tA\t+\tB\t+\t0M\nL\tA\t-\tA\t+\t0M\nL\tB\t+\tB\t-\t0M") == \
  ["L\tA_B\t+\tA_B\t-\t0M", "L\tA_B\t-\tA_B\t+\t0M", "S\tA_B\tAACC\tLN:i:4"]
# last segment enters the merged segment reversed: its left end becomes the right end of the merged segment
r = merged("S\tA\tAA\nS\tB\tCG\nL\tA\t+\tB\t-\t0M\nL\tB\t-\tB\t+\t0M")
assert r == ["L\tA_B\t+\tA_B\t-\t0M", "S\tA_B\tAACG\tLN:i:4"], r
# circular path and plain chains are merged as before
assert merged("S\tA\t*\nS\tB\t*\nL\tA\t+\tB\t+\t*\nL\tB\t+\tA\t+\t*") == ["L\tB_A\t+\tB_A\t+\t*", "S\tB_A\t*"]
assert merged("S\tA\t*\nS\tB\t*\nS\tC\t*\nL\tA\t+\tB\t+\t*\nL\tB\t+\tC\t+\t*") == ["S\tA_B_C\t*"]
# GFA2 (the coordinates of the edges are not adapted by the merge operation, hence no validation)
g = gfapy.Gfa("S\tA\t2\tAA\nS\tB\t2\tCC\nE\t*\tA+\tB+\t2$\t2$\t0\t0\t0M\nE\t*\tB+\tB-\t2$\t2$\t2$\t2$\t0M")
g.merge_linear_paths()
assert g.segment_names == ["A_B"] and len(g.edges) == 1
assert (str(g.edges[0].sid1), str(g.edges[0].sid2)) == ("A_B+", "A_B-")
print("ok")
