import gfapy
import sys

failures = []

def expect_error(label, fn, errclass=gfapy.Error):
  try:
    fn()
  except errclass:
    return
  except Exception as e:
    failures.append("{}: raised {} instead of {}".format(
      label, type(e).__module__ + "." + type(e).__name__, "gfapy." + errclass.__name__))
    return
  failures.append("{}: no error raised".format(label))

BAD = ["c,300", "C,-1", "C,256", "s,40000", "S,65536", "i,2147483648",
       "I,4294967296", "c,1,2,-129"]
GOOD = ["c,127", "c,-128", "C,255", "C,+0", "s,-32768", "S,65535",
        "i,-2147483648", "I,4294967295", "f,1.5,2", "c,1,2,3"]

for bad in BAD:
  # the parser itself rejects these
  expect_error("parse " + bad,
      lambda: gfapy.Line("S\tA\t*\txb:B:" + bad, vlevel=1))
  # assignment at level 3
  l = gfapy.Line("S\tA\t*\txb:B:c,1", vlevel=3)
  expect_error("set {} vlevel 3".format(bad), lambda: l.set("xb", bad))
  # explicit validation at every level, writing at level 2
  for vlevel in [0, 1, 2]:
    l = gfapy.Line("S\tA\t*\txb:B:c,1", vlevel=vlevel)
    l.set("xb", bad)
    expect_error("validate_field {} vlevel {}".format(bad, vlevel),
                 lambda: l.validate_field("xb"))
    expect_error("validate {} vlevel {}".format(bad, vlevel),
                 lambda: l.validate())
    if vlevel >= 2:
      expect_error("field_to_s {} vlevel {}".format(bad, vlevel),
                   lambda: l.field_to_s("xb"))
      try:
        written = str(l)
      except gfapy.Error:
        written = None
      if written is not None and "INVALID" not in written:
        failures.append("str() writes {} at vlevel {}: {}".format(
          bad, vlevel, written))

for good in GOOD:
  for vlevel in [0, 1, 2, 3]:
    l = gfapy.Line("S\tA\t*\txb:B:c,1", vlevel=vlevel)
    try:
      l.set("xb", good)
      l.validate()
      s = str(l)
      assert s == "S\tA\t*\txb:B:" + good, s
      gfapy.Line(s, vlevel=3).validate()
    except Exception as e:
      failures.append("valid value {!r} rejected at vlevel {}: {!r}".format(
        good, vlevel, e))

if failures:
  print("\n".join(failures))
  sys.exit(1)
