import gfapy
# a self-edge is listed twice in segment.edges; the implied edge of the path
# A+ A+ is nevertheless unique

def gfa(lines):
  return gfapy.Gfa(["\t".join(l.split("|")) for l in lines], version="gfa2")

g = gfa(["S|A|10|*", "E|e1|A+|A+|8|10$|0|2|*", "O|p|A+ A+"])
cp = g.line("p").captured_path
assert " ".join(str(x) for x in cp) == "A+ e1+ A+", [str(x) for x in cp]
assert [str(x) for x in g.line("p").captured_edges] == ["e1+"]

# reverse traversal
g = gfa(["S|A|10|*", "E|e1|A+|A+|8|10$|0|2|*", "O|p|A- A-"])
cp = g.line("p").captured_path
assert " ".join(str(x) for x in cp) == "A- e1- A-", [str(x) for x in cp]

# U group through such a path
g = gfa(["S|A|10|*", "E|e1|A+|A+|8|10$|0|2|*", "O|p|A+ A+", "U|u|p"])
iset = g.line("u").induced_set
assert sorted(x.name for x in iset) == ["A", "e1"], [str(x) for x in iset]

# two distinct parallel self-edges are still ambiguous
g = gfa(["S|A|10|*", "E|e1|A+|A+|8|10$|0|2|*", "E|e2|A+|A+|7|10$|0|3|*",
         "O|p|A+ A+"])
try:
  g.line("p").captured_path
except gfapy.NotUniqueError:
  pass
else:
  raise AssertionError("NotUniqueError expected")
