import gfapy
pass
def expect_not_unique(g, line):
  before = str(g)
  try:
    g.add_line(line)
  except gfapy.NotUniqueError:
    pass
  else:
    raise AssertionError("accepted: {}\nnames: {}".format(line, g.names))
  assert str(g) == before
base = "S\tA\t*\nS\tB\t*\nS\tC\t*\nL\tA\t+\tB\t+\t*\tID:Z:e1\nC\tA\t+\tB\t+\t0\t*\tID:Z:c1\nL\tB\t+\tC\t+\t*\nC\tB\t+\tC\t+\t0\t*"
g = gfapy.Gfa(base, vlevel=3)
assert g.line("e1") is g.dovetails[0] or g.line("e1") is g.dovetails[1]
assert str(g.line("e1")) == "L\tA\t+\tB\t+\t*\tID:Z:e1"
assert str(g.try_get_line("c1")) == "C\tA\t+\tB\t+\t0\t*\tID:Z:c1"
assert g.line("zz") is None and g.line("*") is None
assert sorted(g.names) == ["A", "B", "C", "c1", "e1"]
for line in ["S\te1\t*", "S\tc1\t*", "P\te1\tA+,B+\t*", "P\tc1\tA+,B+\t*",
             "C\tA\t+\tC\t+\t0\t*\tID:Z:e1", "C\tA\t+\tC\t+\t0\t*\tID:Z:c1", "C\tA\t+\tC\t+\t0\t*\tID:Z:A",
             "L\tA\t+\tC\t+\t*\tID:Z:e1", "L\tA\t+\tC\t+\t*\tID:Z:c1", "L\tA\t+\tC\t+\t*\tID:Z:A"]:
  expect_not_unique(g, line)
  assert len(g.names) == len(set(g.names)), g.names
# unnamed L and C lines are still accepted, the complement of a link is still recognized
g.add_line("L\tA\t-\tC\t+\t*")
g.add_line("C\tA\t-\tC\t+\t0\t*")
g.add_line("L\tB\t-\tA\t-\t*\tID:Z:e1")
assert len(g.dovetails) == 3 and len(g.containments) == 3
# select by name, rm by name, rename
assert [str(x) for x in g.select({"name": "e1"})] == ["L\tA\t+\tB\t+\t*\tID:Z:e1"]
g.rm("c1")
assert g.line("c1") is None and len(g.containments) == 2
g.add_line("S\tc1\t*")
try:
  g.line("e1").name = "c1"
except gfapy.NotUniqueError:
  pass
else:
  raise AssertionError("link renamed to existing name")
gfapy.Gfa(str(g), vlevel=3).validate()
# a name clash with a virtual segment (defined only by references) is an error too
for extra in ["C\tA\t+\tB\t+\t0\t*\tID:Z:X", "L\tA\t+\tB\t-\t*\tID:Z:X"]:
  g = gfapy.Gfa("S\tA\t*\nS\tB\t*\nL\tB\t+\tX\t+\t*", vlevel=0)
  expect_not_unique(g, extra)
  g.add_line("S\tX\t*")
  gfapy.Gfa(str(g), vlevel=3).validate()
# conversion to GFA2 keeps the names
g2 = gfapy.Gfa("S\tA\t*\tLN:i:5\nS\tB\t*\tLN:i:5\nL\tA\t+\tB\t+\t2M\tID:Z:e1").to_gfa2()
assert g2.line("e1") is g2.edges[0]
print("ok")
