import gfapy
# an odd-length hex string is not a byte array: reported at level 3 on assignment, at level 2 on write, always by validate
l = gfapy.Line("S\tA\t*\txx:H:0A", vlevel=3)
try:
  l.set("xx", "ABC"); raise AssertionError("accepted at level 3")
except gfapy.Error: pass
l = gfapy.Line("S\tA\t*\txx:H:0A", vlevel=2); l.set("xx", "ABC")
try:
  l.field_to_s("xx"); raise AssertionError("written at level 2")
except gfapy.Error: pass
l = gfapy.Line("S\tA\t*\txx:H:0A", vlevel=0); l.set("xx", "ABC")
try:
  l.validate_field("xx"); raise AssertionError("validated")
except gfapy.Error: pass
# an empty numeric array has no written form
l = gfapy.Line("S\tA\t*", vlevel=2)
l.set("xx", gfapy.NumericArray([]))
for f in (lambda: l.field_to_s("xx"), lambda: l.validate_field("xx")):
  try:
    f(); raise AssertionError("empty array accepted")
  except gfapy.Error: pass
assert str(gfapy.NumericArray([1, 2])) == "C,1,2"
print("ok")
