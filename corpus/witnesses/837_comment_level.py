"""C18: a comment arriving before the version is known is built at level 1 whatever the level of the Gfa."""
import sys, gfapy
bad = 0
for lvl in (0, 1, 2, 3):
    for text in ("# hello\nS\tA\t*", "# hello\nS\tA\t10\t*", "# only"):
        g = gfapy.Gfa(text, vlevel=lvl)
        c = g.comments[0]
        if c.vlevel != lvl:
            bad += 1; print("FAIL level", lvl, c.vlevel, repr(text))
g = gfapy.Gfa("# hello\nS\tA\t*", vlevel=3)
try:
    g.comments[0].content = "a\nb"
    bad += 1; print("FAIL accepted at level 3")
except gfapy.Error:
    pass
sys.exit(1 if bad else 0)
