"""C07: L/C line whose ID tag has a non-string datatype at vlevel 0 -> AttributeError (foreign exception)."""
import sys, gfapy
bad = 0
for tag in ("ID:i:5", 'ID:J:["c", 1]', "ID:f:1.5", "ID:B:c,1"):
    g = gfapy.Gfa(vlevel=0)
    try:
        for l in ["S\tA\t*", "S\tB\t*", "L\tA\t+\tB\t+\t*\t" + tag]:
            g.add_line(l)
        str(g)
    except gfapy.Error:
        pass
    except Exception as e:
        bad += 1; print("FAIL", tag, type(e).__name__, e)
sys.exit(1 if bad else 0)
