"""C07: induced set of sets that list their subset twice, 40 levels deep, must return (used to take exponential time)."""
import sys, signal, gfapy
def alarm(*a): raise TimeoutError()
signal.signal(signal.SIGALRM, alarm)
L = ["S\ta\t10\t*", "U\tu0\ta"] + ["U\tu%d\tu%d u%d" % (k, k - 1, k - 1) for k in range(1, 40)]
g = gfapy.Gfa(L, version="gfa2")
signal.alarm(20)
try:
    r = [s.name for s in g.line("u39").induced_segments_set]
    signal.alarm(0)
except TimeoutError:
    print("FAIL: no answer within 20 s"); sys.exit(1)
print(r); sys.exit(0 if r == ["a"] else 1)
