"""C03: `O 1 1+ 1-` is refused when it comes first and accepted after a line that mentions `1`."""
import sys, gfapy
def build(lines):
    g = gfapy.Gfa(version="gfa2", vlevel=1)
    try:
        for l in lines:
            g.add_line(l)
        return sorted(str(x) for x in g.lines)
    except gfapy.Error as e:
        return type(e).__name__
a = build(["S\tA\t10\t*", "U\tu1\tA 1", "O\t1\t1+ 1-"])
b = build(["S\tA\t10\t*", "O\t1\t1+ 1-", "U\tu1\tA 1"])
if a != b:
    print(a, b); sys.exit(1)
print("ok", a)
