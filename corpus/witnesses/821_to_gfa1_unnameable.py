"""C06: GFA2 -> GFA1 of a segment/edge whose identifier has no GFA1 spelling is written unchecked (mistranslated)."""
# GFA2 -> GFA1: a segment whose identifier is not a GFA1 segment name ('x+,y', '*x', '=y') is written unchecked
# by S.to_gfa1_s(), E.to_gfa1_s() and Gfa.to_gfa1_s() (every vlevel) and by to_gfa1() at vlevel 0; the text is
# refused by gfapy itself when read back as GFA1.  (The O->P conversion does check the name.)
import sys, gfapy
bad = 0
for name in ("x+,y", "*x", "=y"):
    g = gfapy.Gfa(["S\t%s\t12\t*" % name, "S\tC\t6\t*", "E\te1\t%s+\tC+\t10\t12$\t0\t2\t2M" % name], vlevel=1, version="gfa2")
    g.validate()
    for what, fn in (("S.to_gfa1_s()", g.segment(name).to_gfa1_s), ("E.to_gfa1_s()", g.line("e1").to_gfa1_s),
                     ("Gfa.to_gfa1_s()", g.to_gfa1_s)):
        try:
            out = fn()
        except gfapy.Error as e:
            print("ok   %-16s %-6r refused: %s" % (what, name, type(e).__name__))
            continue
        try:
            gfapy.Gfa(out, vlevel=1, version="gfa1")
            print("ok   %-16s %-6r -> %r" % (what, name, out))
        except gfapy.Error as e:
            bad += 1
            print("FAIL %-16s %-6r -> %r, which is not GFA1 (%s)" % (what, name, out, type(e).__name__))
s = gfapy.Line("S\tA\t4\t[[]]", vlevel=0, version="gfa2")
try:
    out = s.to_gfa1_s()
    bad += 1
    print("FAIL S.to_gfa1_s() of a sequence with no GFA1 spelling ->", repr(out))
except gfapy.Error as e:
    print("ok   sequence refused:", type(e).__name__)
sys.exit(1 if bad else 0)
