import gfapy
pass
def build(extra):
  return gfapy.Gfa("S\tA\t10\t*\nS\tB\t10\t*\nG\tg1\tA+\tB-\t100\t*\n" + extra, vlevel=3)
for extra in ["U\tu\tg1 A", "O\to\tA+ g1+ B-", "U\tu\tg1 A\nU\tv\tu B"]:
  for how in ["name", "line"]:
    g = build(extra)
    g.rm("g1" if how == "name" else g.line("g1"))
    s = str(g)
    assert "g1" not in s, s
    g2 = gfapy.Gfa(s, vlevel=3)
    g2.validate()
    assert sorted(g2.names) == sorted(g.names), (g.names, g2.names)
    assert g2.line("g1") is None
    assert sorted(g.segment_names) == ["A", "B"]
print("ok")
# the set that listed the gap survives without the mention; a path over the gap is removed
g = build("U\tu\tg1 A\nO\to\tA+ g1+ B-")
g.rm("g1")
assert sorted(str(g).split("\n")) == ["S\tA\t10\t*", "S\tB\t10\t*", "U\tu\tA"], str(g)
print("ok2")
