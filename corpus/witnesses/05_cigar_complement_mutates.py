import gfapy
pass
a = gfapy.Alignment("2M1D3M")
c = a.complement()
assert str(c) == "3M1I2M", str(c)
assert str(a) == "2M1D3M", str(a)
assert str(c.complement()) == "2M1D3M"
assert str(a.complement().complement()) == str(a)
a1 = gfapy.Alignment("1S2N3I", version="gfa1")
assert str(a1.complement()) == "3D2I1D" and str(a1) == "1S2N3I"
l = gfapy.Line("L\tA\t+\tB\t+\t2M1D3M")
lc = l.complement()
assert str(l) == "L\tA\t+\tB\t+\t2M1D3M", str(l)
assert str(lc) == "L\tB\t-\tA\t-\t3M1I2M", str(lc)
assert l.is_complement(lc) and lc.is_complement(l) and l.is_eql(lc)
g = gfapy.Gfa("S\tA\t*\nS\tB\t*\nL\tA\t+\tB\t+\t2M1D3M")
before = str(g)
s = str(g.dovetails[0].complement())
assert s == "L\tB\t-\tA\t-\t3M1I2M", s
assert str(g) == before
g.add_line(s)
assert len(g.dovetails) == 1, [str(x) for x in g.dovetails]
assert str(g) == before, str(g)
g.add_line("L\tA\t+\tB\t+\t2M1D3M\txx:i:1") if False else None
try:
  g.add_line("L\tA\t+\tB\t+\t2M1D3M")
except gfapy.NotUniqueError:
  pass
else:
  raise AssertionError("same link accepted twice")
print("ok")
