"""C06: an E line whose container interval is the empty suffix converts to a C line with `$` in its pos field."""
import sys, gfapy
g = gfapy.Gfa(["S\tA\t11\t*", "S\tB\t5\t*", "E\t*\tA-\tB+\t0\t11$\t5$\t5$\t3D1P2I"], version="gfa2", vlevel=1)
s = g.edges[0].to_gfa1_s()
try:
    gfapy.Line(s, version="gfa1", vlevel=1)
except gfapy.Error as e:
    print("invalid GFA1 written:", repr(s)); sys.exit(1)
print("ok", repr(s))
