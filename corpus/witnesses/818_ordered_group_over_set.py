"""C02/C05/C07: an O group listing a U set is not removed with the set: it keeps a reference to a disconnected line
(or to None: validate() raises AttributeError); the written text does not parse any more."""
import sys, gfapy
bad = []
for lines, victim in ((["S\tA\t10\t*", "S\tB\t10\t*", "U\te3\tA B", "O\to1\te3+"], "A"),
                      (["S\tA\t10\t*", "S\tB\t10\t*", "O\to1\te3+", "U\te3\tA B"], "e3"),
                      (["U\tu0\to3", "O\to3\tu0-"], "u0")):
    g = gfapy.Gfa(version="gfa2")
    for t in lines:
        g.add_line(t)
    g.rm(victim)
    try:
        g.validate()
        gfapy.Gfa(str(g))
    except gfapy.Error as e:
        bad.append("%r rm %s: %s" % (lines, victim, type(e).__name__))
    except Exception as e:
        bad.append("%r rm %s: foreign %s" % (lines, victim, type(e).__name__))
    for l in g.lines:
        if l.record_type == "O":
            for i in l.items:
                if i.line is None or not getattr(i.line, "is_connected", lambda: True)():
                    bad.append("%r rm %s: %s lists a removed line" % (lines, victim, l.name))
if bad:
    print("\n".join(bad)); sys.exit(1)
print("ok")
