"""C07: add_line("\\n") at vlevel 0 raises AttributeError (custom record with the reserved record type of virtual unknown lines)."""
import sys, gfapy
bad = []
for ver in ("gfa2", None):
    for vl in (0, 1, 2, 3):
        g = gfapy.Gfa(version=ver, vlevel=vl)
        try:
            g.add_line("\n"); str(g); g.validate()
        except gfapy.Error:
            pass
        except Exception as e:
            bad.append("version=%s vlevel=%d: %s" % (ver, vl, type(e).__name__))
if bad:
    print("\n".join(bad)); sys.exit(1)
print("ok")
