"""C07/C17: groups nested in themselves raise RecursionError (captured path, induced set)."""
import sys, gfapy
bad = []
g = gfapy.Gfa(version='gfa2')
for l in ['S\tA\t10\t*', 'S\tB\t10\t*', 'E\te\tA+\tB+\t5\t10$\t0\t5\t*', 'O\tp\tA+ q+', 'O\tq\tp+ A+', 'O\tr\te+ r+',
          'U\tu\tA v', 'U\tv\tu B', 'U\tw\tw']:
    try:
        g.add_line(l)
    except gfapy.Error:
        pass    # a line naming itself is refused since the self-reference fix
for n in "pqr":
    if g.line(n) is None:
        continue
    try:
        g.line(n).captured_path
        bad.append("captured_path of %s returned" % n)
    except gfapy.Error:
        pass
    except Exception as e:
        bad.append("captured_path of %s: %s" % (n, type(e).__name__))
for n, want in (("u", ["A", "B"]), ("v", ["A", "B"]), ("w", [])):
    if g.line(n) is None:
        continue
    try:
        got = sorted(s.name for s in g.line(n).induced_segments_set)
        if got != want:
            bad.append("induced_segments_set of %s = %r" % (n, got))
    except gfapy.Error:
        pass
    except Exception as e:
        bad.append("induced set of %s: %s" % (n, type(e).__name__))
try:
    str(g); g.validate()
except gfapy.Error:
    pass
if bad:
    print("\n".join(bad)); sys.exit(1)
print("ok")
