import gfapy
import sys

failures = []
ERR = (gfapy.RuntimeError, gfapy.ValueError)
lines = ["S\tA\t10\t*", "S\tB\t10\t*", "S\tC\t10\t*",
         "E\te1\tB+\tC-\t8\t10$\t8\t10$\t2M",
         "E\te2\tA+\tB+\t8\t10$\t0\t2\t2M",
         "G\tg1\tA+\tC+\t5\t*", "G\tg2\tA-\tC+\t5\t*",
         "O\to1\tA+ e2+ B+", "O\to2\tB+ C-", "O\to3\tA+ B+",
         "U\tu1\tA g1 e1", "U\tu2\to2 o2", "U\tu3\tA B",
         "O\to4\to2+ C-" if False else "O\to4\tA+ B+ o2+"]

for vl in [0, 1, 2, 3]:
  # referenced lines cannot become anonymous
  for name, by in [("o2", "u2/o4"), ("e1", "u1"), ("e2", "o1"), ("g1", "u1")]:
    for ph in ["*", gfapy.Placeholder()]:
      g = gfapy.Gfa(lines, vlevel=vl)
      before = str(g)
      l = g.line(name)
      try:
        l.name = ph
        failures.append("vlevel={} {} (listed in {}) renamed to *".format(vl, name, by))
      except ERR:
        pass
      except Exception as e:
        failures.append("vlevel={} {}: {!r}".format(vl, name, e))
      try:
        if str(g) != before:
          failures.append("vlevel={} {}: graph changed".format(vl, name))
        if g.line(name) is not l or l.name != name:
          failures.append("vlevel={} {}: line not found any more".format(vl, name))
        g.validate()
      except Exception as e:
        failures.append("vlevel={} {}: after: {!r}".format(vl, name, e))
  # unreferenced lines can
  for name in ["o1", "o3", "u1", "u2", "u3", "g2", "o4"]:
    g = gfapy.Gfa(lines, vlevel=vl)
    l = g.line(name)
    try:
      l.name = "*"
      if g.line(name) is not None:
        failures.append("vlevel={} {}: still found by name".format(vl, name))
      if not gfapy.is_placeholder(l.name) or l not in g.lines:
        failures.append("vlevel={} {}: not renamed".format(vl, name))
      str(g)
      g.validate()
    except Exception as e:
      failures.append("vlevel={} unreferenced {}: {!r}".format(vl, name, e))
  # renaming a referenced line to another name still works
  g = gfapy.Gfa(lines, vlevel=vl)
  try:
    g.line("o2").name = "x2"
    if "U\tu2\tx2 x2" not in str(g).split("\n"):
      failures.append("vlevel={}: rename o2 -> x2: {!r}".format(vl, str(g)))
  except Exception as e:
    failures.append("vlevel={} rename o2 -> x2: {!r}".format(vl, e))

# GFA1: the ID of a link on a path can still be removed (paths do not use it)
g = gfapy.Gfa(["S\tA\t*", "S\tB\t*", "L\tA\t+\tB\t+\t2M\tID:Z:l1", "P\tp\tA+,B+\t2M"])
try:
  g.line("l1").set("ID", None)
  if "L\tA\t+\tB\t+\t2M" not in str(g).split("\n"):
    failures.append("gfa1: ID not removed: {!r}".format(str(g)))
  g.validate()
except Exception as e:
  failures.append("gfa1 link ID removal: {!r}".format(e))

if failures:
  print("\n".join(failures))
  sys.exit(1)
print("ok")
