import gfapy
pass
g = gfapy.Gfa("S\tA\t*\nS\tB\t*\nL\tA\t+\tB\t+\t*\nP\tp\tA+,B+\t*")
try:
  g.segment("A").name = "B"
except gfapy.NotUniqueError:
  pass
else:
  raise AssertionError("rename to existing name accepted: {}".format(g.segment_names))
assert sorted(g.segment_names) == ["A", "B"], g.segment_names
assert g.segment("A").name == "A"
assert str(g.dovetails[0]) == "L\tA\t+\tB\t+\t*"
# other namespaces: path name vs segment name
try:
  g.line("p").name = "A"
except gfapy.NotUniqueError:
  pass
else:
  raise AssertionError("path renamed to segment name")
assert sorted(g.names) == ["A", "B", "p"], g.names
# same name and fresh name still work
g.segment("A").name = "A"
assert sorted(g.segment_names) == ["A", "B"]
g.segment("A").name = "X"
assert sorted(g.segment_names) == ["B", "X"]
assert str(g.dovetails[0]) == "L\tX\t+\tB\t+\t*"
assert g.segment("X") is g.line("X") and g.line("A") is None
gfapy.Gfa(str(g), vlevel=3).validate()
# gfa2
g = gfapy.Gfa("S\tA\t10\t*\nS\tB\t10\t*\nE\te\tA+\tB+\t0\t10$\t0\t10$\t*")
for l, n in [("e", "A"), ("A", "e"), ("A", "B")]:
  try:
    g.line(l).name = n
  except gfapy.NotUniqueError:
    pass
  else:
    raise AssertionError((l, n))
assert sorted(g.names) == ["A", "B", "e"]
g.line("e").name = "*"
assert sorted(g.names) == ["A", "B"] and len(g.edges) == 1
g.edges[0].name = "f"
assert sorted(g.names) == ["A", "B", "f"]
print("ok")
