import gfapy
pass
g = gfapy.Gfa("P\tp\tA+\t*", vlevel=0)
assert g.version == "gfa1"
assert [(s.name, s.virtual) for s in g.segments] == [("A", True)]
assert str(g.line("p")) == "P\tp\tA+\t*"
assert g.line("p").segment_names[0].line is g.segment("A")
assert g.segment("A").paths == [g.line("p")]
# the later definition of the segment substitutes the virtual one
g.add_line("S\tA\tACGT")
assert [(s.name, s.virtual) for s in g.segments] == [("A", False)]
assert g.line("p").segment_names[0].line is g.segment("A")
assert g.segment("A").paths == [g.line("p")]
g.validate()
assert str(gfapy.Gfa(str(g), vlevel=3)) == str(g)
# the same segment-less document is rejected by validation, with a gfapy error
try:
  gfapy.Gfa("P\tp\tA+\t*", vlevel=1)
except gfapy.NotFoundError:
  pass
else:
  raise AssertionError("dangling segment reference accepted by validate")
# order independence
g2 = gfapy.Gfa("P\tp\tA+\t*\nS\tA\tACGT", vlevel=3)
g3 = gfapy.Gfa("S\tA\tACGT\nP\tp\tA+\t*", vlevel=3)
assert sorted(str(g2).split("\n")) == sorted(str(g3).split("\n"))
# removing the segment removes the dependent path
g2.rm("A")
assert g2.lines == []
print("ok")
