import gfapy
pass
def cp(g, n):
  return [str(x) for x in g.line(n).captured_path]
g = gfapy.Gfa("S\tA\t10\t*\nS\tB\t10\t*\nS\tC\t10\t*\nE\te1\tA+\tB+\t5\t10$\t0\t5\t*\nE\te2\tB+\tC+\t5\t10$\t0\t5\t*\n"
              "O\to1\te1+\nO\to2\to1-\nO\to4\te1-\nO\to6\tB- e1- A-\nO\to7\te1- A-\nO\to8\te2- e1-\nO\to9\te1+ e2+\nO\to10\to9-", vlevel=3)
assert cp(g, "o1") == ["A+", "e1+", "B+"]
# the reversed traversal of an edge is the reverse of its traversal
assert cp(g, "o2") == ["B-", "e1-", "A-"]
assert cp(g, "o4") == cp(g, "o2"), cp(g, "o4")
assert cp(g, "o6") == ["B-", "e1-", "A-"]
assert cp(g, "o7") == ["B-", "e1-", "A-"]
assert cp(g, "o9") == ["A+", "e1+", "B+", "e2+", "C+"]
assert cp(g, "o10") == ["C-", "e2-", "B-", "e1-", "A-"]
assert cp(g, "o8") == cp(g, "o10"), cp(g, "o8")
# GFA1 path using the complement of a link, converted to GFA2
g1 = gfapy.Gfa("S\tA\t*\tLN:i:10\nS\tB\t*\tLN:i:10\nL\tB\t-\tA\t-\t5M\tID:Z:e1\nP\tp\tA+,B+\t5M\nP\tq\tA+\t*", vlevel=3)
g2 = g1.to_gfa2()
assert str(g2.line("p")) == "O\tp\tA+ e1- B+"
assert cp(g2, "p") == ["A+", "e1-", "B+"]
g2.add_line("O\tp2\te1-")
assert cp(g2, "p2") == ["A+", "e1-", "B+"], cp(g2, "p2")
assert g2.line("p2").to_gfa1_s() == "P\tp2\tA+,B+\t5M", g2.line("p2").to_gfa1_s()
print("ok")
