"""C05: a placeholder link keeps the overlap stated by a removed path; the history then differs from a fresh parse of its text."""
import sys, gfapy
g = gfapy.Gfa(version="gfa1")
for l in ["S\ta\t*", "S\tb\t*", "P\tp1\ta+,b+\t*", "P\tp2\ta+,b+\t5M"]:
    g.add_line(l)
g.rm("p2")
g.add_line("L\ta\t+\tb\t+\t3M")
try:
    g.validate()
except gfapy.Error as e:
    print("FAIL: the history is not valid although its text is:", type(e).__name__); sys.exit(1)
links = [(str(x), x.virtual, [str(p.name) for p in x.paths]) for x in g._gfa1_links]
print(links)
sys.exit(0 if links == [("L\ta\t+\tb\t+\t3M", False, ["p1"])] else 1)
