import gfapy
# a line rejected because one of its segment references is the name of a line of another type must leave
# no placeholder behind for its other references
g = gfapy.Gfa(version="gfa1")
g.add_line("L\tB\t-\tB\t+\t2M\tID:Z:e3")
before = sorted(str(x) for x in g.lines)
try:
  g.add_line("L\tC\t+\te3\t-\t*")
  raise AssertionError("accepted")
except gfapy.NotUniqueError:
  pass
assert sorted(str(x) for x in g.lines) == before, sorted(str(x) for x in g.lines)
g2 = gfapy.Gfa(version="gfa2")
g2.add_line("O\tp1\tA+ B+")
g2.add_line("S\tA\t10\t*")
b2 = sorted(str(x) for x in g2.lines)
for bad in ["E\t*\tC+\tp1-\t0\t5\t5\t10$\t*", "G\t*\tD+\tp1+\t5\t*", "F\tp1\tr1+\t0\t5\t0\t5\t*"]:
  try:
    g2.add_line(bad); raise AssertionError("accepted " + bad)
  except gfapy.NotUniqueError:
    pass
  assert sorted(str(x) for x in g2.lines) == b2
# a placeholder of unknown type may still become a segment
g2.add_line("E\t*\tA+\tB-\t0\t5\t5\t10$\t*")
assert g2.segment("B") is not None and g2.segment("B").virtual
print("ok")
