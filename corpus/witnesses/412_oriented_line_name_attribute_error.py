import gfapy
import sys

failures = []

def expect_gfapy_error(label, fn):
  try:
    fn()
  except gfapy.Error:
    return
  except Exception as e:
    failures.append("{}: raised builtin {}: {}".format(
      label, type(e).__name__, str(e).split("\n")[-1]))
    return
  failures.append("{}: no error raised".format(label))

header = gfapy.Line("H\tVN:Z:1.0")
for line in [5, None, ["A"], header]:
  ol = gfapy.OrientedLine(line, "+")
  # name, str and comparisons do not raise
  try:
    if ol.name is not None:
      failures.append("name of {!r} is {!r}".format(ol, ol.name))
    str(ol)
    if ol == "*" or ol == "A+" or ol == ["A", "+"] or \
        ol == gfapy.OrientedLine("A", "+"):
      failures.append("{!r} is equal to a valid oriented line".format(ol))
  except Exception as e:
    failures.append("{!r}: raised {}: {}".format(ol, type(e).__name__, e))
  expect_gfapy_error("{!r}.validate()".format(ol), lambda: ol.validate())
  # assigned to fields of other datatypes, which compare the value with strings
  for text, field, value in [("L\tA\t+\tB\t-\t3M", "from_orient", ol),
                             ("P\tp\tA+,B-\t3M", "overlaps", [ol])]:
    label = "{} = {!r:.50}".format(field, value)
    l = gfapy.Line(text, vlevel=3)
    expect_gfapy_error(label + ": set at vlevel 3", lambda: l.set(field, value))
    for vlevel in [0, 1, 2]:
      l = gfapy.Line(text, vlevel=vlevel)
      l.set(field, value)
      expect_gfapy_error(label + ": validate_field at vlevel {}".format(vlevel),
                         lambda: l.validate_field(field))
      expect_gfapy_error(label + ": validate at vlevel {}".format(vlevel),
                         lambda: l.validate())
      if vlevel >= 2:
        expect_gfapy_error(label + ": field_to_s at vlevel {}".format(vlevel),
                           lambda: l.field_to_s(field))

# names of strings and of lines are unchanged
seg = gfapy.Line("S\tC\t*")
if gfapy.OrientedLine("C", "+").name != "C" or \
    gfapy.OrientedLine(seg, "+").name != "C" or \
    gfapy.OrientedLine(seg, "+") != gfapy.OrientedLine("C", "+") or \
    str(gfapy.OrientedLine(seg, "-")) != "C-":
  failures.append("name of valid oriented lines is wrong")

if failures:
  print("\n".join(failures))
  sys.exit(1)
