import gfapy
import re
import sys

failures = []
ERR = (gfapy.ValueError, gfapy.TypeError, gfapy.FormatError)
TAG = re.compile(r"^[A-Za-z][A-Za-z0-9]:(A:[!-~]|i:[-+]?[0-9]+|f:[-+]?[0-9]*\.?[0-9]+([eE][-+]?[0-9]+)?|Z:[ !-~]+|J:[ !-~]+|H:([0-9A-F][0-9A-F])+|B:(f(,[-+]?[0-9]*\.?[0-9]+([eE][-+]?[0-9]+)?)+|[cCsSiI](,[-+]?[0-9]+)+))\Z")

def well_formed(s):
  return all(TAG.match(t) for t in s.split("\t")[3:])

def check(label, make):
  """make(vlevel) -> line with the bad value set (or raises a gfapy error)"""
  for vl in [0, 1, 2, 3]:
    try:
      l = make(vl)
    except ERR:
      continue             # refused when set: fine
    except Exception as e:
      failures.append("{} vlevel={}: set: {!r}".format(label, vl, e))
      continue
    # validate() must report it
    try:
      l.validate()
      failures.append("{} vlevel={}: validate() passes".format(label, vl))
    except ERR:
      pass
    except Exception as e:
      failures.append("{} vlevel={}: validate(): {!r}".format(label, vl, e))
    try:
      l.validate_field("xx")
      failures.append("{} vlevel={}: validate_field() passes".format(label, vl))
    except ERR:
      pass
    except Exception as e:
      failures.append("{} vlevel={}: validate_field(): {!r}".format(label, vl, e))
    # never a malformed tag at vlevel >= 2
    if vl >= 2:
      try:
        s = str(l)
        if "# INVALID" not in s and not well_formed(s):
          failures.append("{} vlevel={}: written as {!r}".format(label, vl, s))
      except ERR:
        pass
      except Exception as e:
        failures.append("{} vlevel={}: str(): {!r}".format(label, vl, e))
      try:
        s = l.field_to_s("xx", tag=True)
        if not TAG.match(s):
          failures.append("{} vlevel={}: field_to_s gives {!r}".format(label, vl, s))
      except ERR:
        pass
      except Exception as e:
        failures.append("{} vlevel={}: field_to_s: {!r}".format(label, vl, e))

def setter(value, datatype=None, text="S\tA\t*"):
  def make(vl):
    l = gfapy.Line(text, vlevel=vl)
    if datatype:
      l.set_datatype("xx", datatype)
    l.set("xx", value)
    return l
  return make

check("empty ByteArray", setter(gfapy.ByteArray(b"")))
check("empty ByteArray, H declared", setter(gfapy.ByteArray(b""), "H"))
check("empty list, H declared", setter([], "H"))
check("empty list, B declared", setter([], "B"))
check("empty NumericArray", setter(gfapy.NumericArray([])))
check("[inf]", setter([float("inf")]))
check("[1.0, nan]", setter([1.0, float("nan")], "B"))
check("NumericArray([-inf])", setter(gfapy.NumericArray([float("-inf")])))
check("True, i declared", setter(True, "i"))
check("False, i declared", setter(False, "i"))
check("[True, False], B declared", setter([True, False], "B"))
check("NumericArray([1, True])", setter(gfapy.NumericArray([1, True])))
check("True, default datatype", setter(True))

# valid values are still accepted and written
for vl in [0, 1, 2, 3]:
  l = gfapy.Line("S\tA\t*", vlevel=vl)
  l.set("aa", gfapy.ByteArray(b"\x01\xff")); l.set("bb", [1, 2, 3]); l.set("cc", [1.5, -2.0])
  l.set("dd", 12); l.set("ee", -1.5); l.set("ff", gfapy.NumericArray([0, -200]))
  l.validate()
  exp = "S\tA\t*\taa:H:01FF\tbb:B:C,1,2,3\tcc:B:f,1.5,-2.0\tdd:i:12\tee:f:-1.5\tff:B:s,0,-200"
  if str(l) != exp:
    failures.append("valid values vlevel={}: {!r}".format(vl, str(l)))

if failures:
  print("\n".join(failures))
  sys.exit(1)
print("ok")
