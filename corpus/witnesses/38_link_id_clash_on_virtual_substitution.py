import gfapy
g = gfapy.Gfa(version="gfa1")
for l in ["P\tp1\tD-,C-\t*", "P\tp2\tC-,B+\t*"]:
  g.add_line(l)
# the link D- -> C- is so far a placeholder created by p1; the real link carries an ID already used by path p2
try:
  g.add_line("L\tC\t+\tD\t+\t4M\tID:Z:p2")
  raise AssertionError("duplicate identifier accepted: %r" % sorted(g.names))
except gfapy.NotUniqueError:
  pass
assert sorted(g.names).count("p2") == 1
# without a clash the placeholder is still replaced
g.add_line("L\tC\t+\tD\t+\t4M\tID:Z:e9")
assert g.line("e9") is not None and len(g.line("p1").links) == 1 and g.line("p1").links[0].line is g.line("e9")
print("ok")
