import gfapy
import sys

failures = []

def expect_error(label, fn, errclass=gfapy.Error):
  try:
    fn()
  except errclass:
    return
  except Exception as e:
    failures.append("{}: raised {}.{} instead of gfapy.{}".format(
      label, type(e).__module__, type(e).__name__, errclass.__name__))
    return
  failures.append("{}: no error raised".format(label))

Op = gfapy.CIGAR.Operation
FIELDS = [("L\tA\t+\tB\t-\t3M", "gfa1", "overlap", False),
          ("P\tp\tA+,B-\t3M", "gfa1", "overlaps", True),
          ("E\te\tA+\tB-\t0\t3\t7\t10$\t3M", "gfa2", "alignment", False)]

for length in ["x", "", "1.5", "3M"]:
  op = Op(length, "M")
  expect_error("Operation({!r},'M').validate()".format(length),
               lambda: op.validate(), gfapy.TypeError)
  bad = gfapy.CIGAR([Op(2, "M"), op])
  expect_error("CIGAR with Operation({!r},'M').validate()".format(length),
               lambda: bad.validate(), gfapy.TypeError)
  for line, version, field, is_list in FIELDS:
    value = [bad] if is_list else bad
    label = "{} = CIGAR with length {!r}".format(field, length)
    l = gfapy.Line(line, version=version, vlevel=3)
    expect_error(label + ": set at vlevel 3", lambda: l.set(field, value))
    if str(l) != line:
      failures.append(label + ": rejected assignment changed the line")
    for vlevel in [0, 1, 2]:
      l = gfapy.Line(line, version=version, vlevel=vlevel)
      l.set(field, value)
      expect_error(label + ": validate_field at vlevel {}".format(vlevel),
                   lambda: l.validate_field(field))
      expect_error(label + ": validate at vlevel {}".format(vlevel),
                   lambda: l.validate())
      if vlevel >= 2:
        expect_error(label + ": field_to_s at vlevel {}".format(vlevel),
                     lambda: l.field_to_s(field))

# integers, also as strings, are valid lengths; negative ones are not
Op(3, "M").validate()
Op("3", "M").validate()
expect_error("Operation(-1,'M')", lambda: Op(-1, "M").validate(),
             gfapy.ValueError)
expect_error("Operation(1.5,'M')", lambda: Op(1.5, "M").validate(),
             gfapy.TypeError)
for vlevel in [0, 1, 2, 3]:
  try:
    l = gfapy.Line("L\tA\t+\tB\t-\t3M", vlevel=vlevel)
    l.overlap = gfapy.CIGAR([Op(2, "M"), Op("4", "I")])
    l.validate()
    assert str(l) == "L\tA\t+\tB\t-\t2M4I", str(l)
  except Exception as e:
    failures.append("valid overlap rejected at vlevel {}: {!r}".format(
      vlevel, e))

if failures:
  print("\n".join(failures))
  sys.exit(1)
