"""gfapy (unchanged tree): the orientation of a hairpin link in path.links depends on the order of the lines
when two path steps use the same hairpin link and both arrive before the link."""
import sys, gfapy
S, L, P, Q = "S\ta\tACGT", "L\ta\t+\ta\t-\t2M\tID:Z:hp", "P\tp\ta+,a-\t*", "P\tq\ta+,a-\t*"
def links(order):
    g = gfapy.Gfa(order)
    return ({str(x.name): [str(l.line.name) + l.orient for l in x.links] for x in g.paths},
            sorted(l for l in g.to_gfa2_s().split("\n") if l.startswith("O")))
a = links([S, L, P, Q])
b = links([S, P, Q, L])
print("link first :", a)
print("paths first:", b)
sys.exit(0 if a == b else 1)
