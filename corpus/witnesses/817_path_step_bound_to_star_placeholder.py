"""C12/C03: a path step with a specified overlap, read while a `*` placeholder link stands between the same segment
ends, stays bound to whichever real link replaces the placeholder (wrong link / wrong direction flag)."""
import sys, itertools, gfapy
def res(lines):
    g = gfapy.Gfa(version="gfa1")
    for l in lines:
        g.add_line(l)
    return sorted((p.name, str(p.links[0].line), p.links[0].orient) for p in g.paths if p.name != "ps")
doc = ["S\tA\t*", "S\tB\t*", "P\tps\tA+,B+\t*", "P\tp2\tA+,B+\t2M1I1M", "L\tA\t+\tB\t+\t3M", "L\tA\t+\tB\t+\t2M1I1M"]
outs = {tuple(res([doc[i] for i in p])) for p in itertools.permutations(range(len(doc)))}
if len(outs) != 1 or list(outs)[0] != (("p2", "L\tA\t+\tB\t+\t2M1I1M", "+"),):
    print(outs); sys.exit(1)
h1 = res(["S\tC\t*", "P\tps\tC+,C-\t*", "P\tp0\tC+,C-\t1P3=", "L\tC\t+\tC\t-\t3=1P"])
h2 = res(["S\tC\t*", "P\tp0\tC+,C-\t1P3=", "L\tC\t+\tC\t-\t3=1P"])
if h1 != h2:
    print(h1, h2); sys.exit(1)
print("ok")
