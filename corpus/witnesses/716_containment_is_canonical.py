import gfapy
import sys

failures = []
for text, exp in [("C\tA\t+\tB\t+\t0\t*", True), ("C\tA\t+\tB\t-\t3\t2M", True),
                  ("C\tA\t-\tB\t+\t0\t*", False), ("C\tA\t-\tB\t-\t3\t2M", False)]:
  try:
    r = gfapy.Line(text).is_canonical()
    if r is not exp:
      failures.append("{!r}: {!r} expected, got {!r}".format(text, exp, r))
    g = gfapy.Gfa(["S\tA\t*", "S\tB\t*", text])
    r = g.containments[0].is_canonical()
    if r is not exp:
      failures.append("{!r} (connected): {!r} expected, got {!r}".format(text, exp, r))
  except Exception as e:
    failures.append("{!r}: {!r}".format(text, e))
if failures:
  print("\n".join(failures))
  sys.exit(1)
print("ok")
