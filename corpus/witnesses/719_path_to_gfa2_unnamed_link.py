import gfapy
import sys

failures = []
lines = ["S\tA\t*\tLN:i:10", "S\tB\t*\tLN:i:10", "S\tC\t*\tLN:i:10",
         "L\tA\t+\tB\t+\t2M", "L\tB\t+\tC\t-\t3M\tID:Z:bc",
         "P\tp\tA+,B+,C-\t2M,3M", "P\tq\tC+,B-,A-\t3M,2M"]
for vl in [0, 1, 2, 3]:
  g = gfapy.Gfa(lines, vlevel=vl)
  before = str(g)
  try:
    for name, exp in [("p", "O\tp\tA+ B+ bc+ C-"), ("q", "O\tq\tC+ bc- B- A-")]:
      r = g.line(name).to_gfa2_s()
      if r != exp:
        failures.append("vlevel={} {}.to_gfa2_s(): {!r} expected, got {!r}".format(vl, name, exp, r))
      r = str(g.line(name).to_gfa2())
      if r != exp:
        failures.append("vlevel={} {}.to_gfa2(): {!r} expected, got {!r}".format(vl, name, exp, r))
    if str(g) != before:
      failures.append("vlevel={}: graph changed".format(vl))
  except Exception as e:
    failures.append("vlevel={}: {!r}".format(vl, e))

# the converted path is resolved in the converted graph, and converted back
g = gfapy.Gfa(lines, vlevel=3)
o = [g.line("p").to_gfa2_s(), g.line("q").to_gfa2_s()] if not failures else []
try:
  g2 = gfapy.Gfa([l.to_gfa2_s() for l in g.segments + g.dovetails] + o, vlevel=3)
  back = g2.to_gfa1_s().split("\n")
  for exp in ["P\tp\tA+,B+,C-\t2M,3M", "P\tq\tC+,B-,A-\t3M,2M"]:
    if o and exp not in back:
      failures.append("{!r} not in {!r}".format(exp, back))
except Exception as e:
  failures.append("converted graph: {!r}".format(e))

# whole graph conversion still refers to the edges by name
g = gfapy.Gfa(lines, vlevel=3)
g2 = gfapy.Gfa(g.to_gfa2_s(), vlevel=3)
items = [str(i) for i in g2.line("p").items]
ab = [e for e in g2.edges if e.sid1.name == "A"][0]
if items != ["A+", ab.name + "+", "B+", "bc+", "C-"]:
  failures.append("whole graph conversion: items {!r}".format(items))

if failures:
  print("\n".join(failures))
  sys.exit(1)
print("ok")
