"""C09/C02: a GFA2 segment named `*` (parsed, or renamed to) is registered under id(line): names lists an int,
the line cannot be looked up, and the references to it are written `*-`, which cannot be read back."""
import sys, gfapy
bad = 0
for lvl in (1, 2, 3):
    try:
        g = gfapy.Gfa(["S\t*\t10\t*"], version="gfa2", vlevel=lvl)
        bad += 1; print("FAIL accepted", lvl, g.names)
    except gfapy.FormatError:
        pass
    g = gfapy.Gfa(["S\tX\t10\t*", "E\t*\tX-\tX+\t0\t5\t0\t10$\t*", "F\tX\tr+\t0\t5\t0\t5\t*"], version="gfa2", vlevel=lvl)
    before = str(g)
    try:
        g.segment("X").name = "*"
        bad += 1; print("FAIL renamed", lvl, g.names)
    except gfapy.Error:
        pass
    if str(g) != before or g.names != ["X"] or not all(isinstance(n, str) for n in g.names):
        bad += 1; print("FAIL state", lvl, g.names, repr(str(g)))
    # the optional identifiers still take the placeholder
    g = gfapy.Gfa(["S\tX\t10\t*", "U\tu\tX"], version="gfa2", vlevel=lvl)
    g.line("u").name = "*"
    if g.names != ["X"]:
        bad += 1; print("FAIL optional", lvl, g.names)
# ... at every level, for GFA1 segments and paths too, and for None (5d: the rename is refused, the Gfa is unchanged)
for lvl in (0, 1, 2, 3):
    for ver, lines, who in (("gfa2", ["S\tX\t10\t*", "E\te\tX-\tX+\t0\t5\t0\t10$\t*"], "X"),
                            ("gfa1", ["S\tX\t*", "L\tX\t+\tX\t-\t*"], "X"),
                            ("gfa1", ["S\tX\t*", "S\tY\t*", "L\tX\t+\tY\t-\t*", "P\tp\tX+,Y-\t*"], "p")):
        for val in ("*", None):
            g = gfapy.Gfa(lines, version=ver, vlevel=lvl)
            before = str(g)
            try:
                g.line(who).name = val
                bad += 1; print("FAIL renamed", lvl, ver, who, repr(val), g.names)
            except gfapy.Error:
                pass
            if str(g) != before or not all(isinstance(n, str) for n in g.names):
                bad += 1; print("FAIL state", lvl, ver, who, repr(val), g.names)
sys.exit(1 if bad else 0)
