import gfapy
pass
g = gfapy.Gfa("S\tA\t*\tLN:i:5\nP\tp\tA+\t*\txx:i:1", vlevel=3)
g2 = g.to_gfa2()
assert str(g2.line("p")) == "O\tp\tA+\txx:i:1"
g1 = g2.to_gfa1()
assert str(g1.line("p")) == "P\tp\tA+\t*\txx:i:1", str(g1.line("p"))
gfapy.Gfa(str(g1), vlevel=3).validate()
g2 = gfapy.Gfa("S\tA\t5\t*\nO\tq\tA-", vlevel=3)
assert str(g2.to_gfa1().line("q")) == "P\tq\tA-\t*"
assert g2.line("q").to_gfa1_s() == "P\tq\tA-\t*"
# paths with several segments are converted as before
g = gfapy.Gfa("S\tA\t*\tLN:i:5\nS\tB\t*\tLN:i:5\nS\tC\t*\tLN:i:5\nL\tA\t+\tB\t+\t2M\nL\tB\t+\tC\t-\t1M\nP\tp\tA+,B+,C-\t2M,1M", vlevel=3)
back = g.to_gfa2().to_gfa1()
assert str(back.line("p")) == "P\tp\tA+,B+,C-\t2M,1M", str(back.line("p"))
print("ok")
