"""C06: GFA2 segment with slen != len(sequence) converted to an invalid GFA1 segment (LN != len(sequence))."""
import sys, gfapy
bad = 0
for lvl in (0, 1, 3):
    g = gfapy.Gfa("S\ta\t12\tACGTACGT", version="gfa2", vlevel=lvl)
    for what, fn in (("Gfa.to_gfa1_s", g.to_gfa1_s), ("S.to_gfa1_s", g.segment("a").to_gfa1_s), ("S.to_gfa1", g.segment("a").to_gfa1)):
        try:
            out = str(fn())
        except gfapy.Error:
            continue
        try:
            gfapy.Gfa(out, version="gfa1", vlevel=3).validate()
        except gfapy.Error as e:
            bad += 1; print("FAIL level", lvl, what, "->", repr(out), type(e).__name__)
sys.exit(1 if bad else 0)
