import gfapy
import sys

failures = []
for text, exp in [("L\tA\t+\tB\t+\t2M1I", "L\tA\t+\tB\t+\t2M1I"),
                  ("L\tA\t-\tB\t-\t*", "L\tA\t-\tB\t-\t*"),
                  ("L\tA\t+\tA\t-\t*", "L\tA\t+\tA\t-\t*"),
                  ("L\tA\t-\tA\t+\t*", "L\tA\t-\tA\t+\t*"),
                  ("L\tA\t+\tA\t+\t*", "L\tA\t+\tA\t+\t*"),
                  ("L\tB\t-\tA\t-\t2M1I", "L\tA\t+\tB\t+\t1D2M"),
                  ("L\tA\t-\tA\t-\t*", "L\tA\t+\tA\t+\t*")]:
  l = gfapy.Line(text)
  try:
    c = l.canonicize()
    if str(c) != exp:
      failures.append("{!r}: {!r} expected, got {!r}".format(text, exp, str(c)))
    if not c.is_canonical():
      failures.append("{!r}: result is not canonical".format(text))
    if l.is_canonical() and c is not l:
      failures.append("{!r}: canonical link, the link itself shall be returned".format(text))
    if str(l) != text:
      failures.append("{!r}: link changed to {!r}".format(text, str(l)))
  except Exception as e:
    failures.append("{!r}: {!r}".format(text, e))
if failures:
  print("\n".join(failures))
  sys.exit(1)
print("ok")
