import gfapy, tempfile, os
pass
def from_file(txt, **kw):
  fd, path = tempfile.mkstemp(suffix=".gfa")
  with os.fdopen(fd, "w") as f:
    f.write(txt + "\n")
  try:
    return gfapy.Gfa.from_file(path, **kw)
  finally:
    os.unlink(path)
for txt in ["H\txx:i:1", "# only a comment", "H\txx:i:1\n# comment", "H\tVN:Z:1.0", "H\tVN:Z:2.0",
            "L\tA\t+\tB\t+\t*", "X\tcustom", "S\tA\t*", "S\tA\t1\t*", "H\txx:i:1\nP\tp\tA+,B+\t*"]:
  for vlevel in [0, 1]:
    if vlevel == 1 and (txt.startswith("L") or "P\t" in txt):
      continue # dangling references are rejected by validate()
    a = gfapy.Gfa(txt, vlevel=vlevel)
    b = gfapy.Gfa(txt.split("\n"), vlevel=vlevel)
    c = from_file(txt, vlevel=vlevel)
    assert a.version == b.version == c.version, (txt, a.version, b.version, c.version)
    assert a.version is not None
    assert str(a) == str(b) == str(c)
assert from_file("H\txx:i:1").version == "gfa2"
assert from_file("H\txx:i:1", version="gfa1").version == "gfa1"
# read_file on an instance with known version keeps it
g = gfapy.Gfa(version="gfa1")
fd, path = tempfile.mkstemp(); os.write(fd, b"H\txx:i:1\n"); os.close(fd)
g.read_file(path); os.unlink(path)
assert g.version == "gfa1" and g.header.xx == 1
print("ok")
