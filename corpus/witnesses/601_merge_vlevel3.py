import gfapy
# merge_linear_paths() at vlevel 3 must not raise and must give the same
# result as at vlevel 1
lines = ["S\tG\tAGTT", "S\tF\tGGGC", "L\tG\t+\tF\t+\t*"]
g = gfapy.Gfa(lines, vlevel=3)
g.merge_linear_paths()
assert g.segment_names == ["G_F"], g.segment_names
assert str(g.segment("G_F").sequence) == "AGTTGGGC"
g1 = gfapy.Gfa(lines, vlevel=1)
g1.merge_linear_paths()
assert sorted(str(l) for l in g.lines) == sorted(str(l) for l in g1.lines)
# with tracking (list valued or tag)
g = gfapy.Gfa(lines, vlevel=3)
g.merge_linear_paths(enable_tracking=True)
assert g.segment("G_F").get("or") == "G,F", g.segment("G_F").get("or")
# the merged segment keeps the validation level of the Gfa
assert g.segment("G_F").vlevel == 3
