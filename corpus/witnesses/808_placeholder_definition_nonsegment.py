"""C08: `E e1 B+ o1+ ...` (e1 known as a placeholder, o1 is a group) is refused, but the placeholder segment B stays."""
import sys, gfapy
g = gfapy.Gfa(version="gfa2")
for l in ["S\tA\t10\t*", "O\to1\tA+", "U\tu1\te1"]:
    g.add_line(l)
before = str(g)
try:
    g.add_line("E\te1\tB+\to1+\t0\t10\t0\t10\t*")
    print("accepted"); sys.exit(1)
except gfapy.Error:
    pass
if str(g) != before:
    print("changed by the refused line:\n" + str(g)); sys.exit(1)
print("ok")
