import gfapy
pass
for vlevel in [0, 1, 2, 3]:
  for val, enc in [([1, 2, 3], "C,1,2,3"), ([-1, 300], "s,-1,300"), ([1.5, 2.0], "f,1.5,2.0")]:
    l = gfapy.Line("S\tA\t*", vlevel=vlevel)
    l.set("xx", val)
    assert l.get_datatype("xx") == "B"
    l.validate()
    assert str(l) == "S\tA\t*\txx:B:" + enc, str(l)
    l2 = gfapy.Line(str(l), vlevel=3)
    assert l2.xx == val
  # invalid content of a list is reported with an error of the library
  for val in [[1, "a"], ["x"], [2**40], [1, 2.5], [None]]:
    l = gfapy.Line("S\tA\t*", vlevel=0)
    l.set_datatype("xx", "B")
    l.set("xx", val)
    try:
      l.validate()
    except gfapy.Error:
      pass
    except Exception as e:
      raise AssertionError("{}: {} {}".format(val, type(e).__name__, e))
    else:
      raise AssertionError("{} accepted".format(val))
  # direct use of the validator
  gfapy.Field._validate_gfa_field([1, 2], "B")
  gfapy.Field._validate_gfa_field(gfapy.NumericArray([1, 2]), "B")
  for bad in [[1, "a"], 5, {"a": 1}]:
    try:
      gfapy.Field._validate_gfa_field(bad, "B")
    except gfapy.Error:
      pass
    else:
      raise AssertionError("{} accepted".format(bad))
print("ok")
