import gfapy
import sys

failures = []

def expect_gfapy_error(label, fn):
  try:
    fn()
  except gfapy.Error:
    return
  except Exception as e:
    failures.append("{}: raised builtin {}: {}".format(
      label, type(e).__name__, str(e).split("\n")[-1]))
    return
  failures.append("{}: no error raised".format(label))

# the overlaps of a path are a list of alignments; a single CIGAR
# (a list of CIGAR operations) is not a valid value
P = "P\tp\tA+,B-\t3M"
bad = gfapy.Alignment("3M")
l = gfapy.Line(P, vlevel=3)
expect_gfapy_error("set overlaps to a CIGAR at vlevel 3",
                   lambda: l.set("overlaps", bad))
if str(l) != P:
  failures.append("rejected assignment changed the line")
for vlevel in [0, 1, 2]:
  l = gfapy.Line(P, vlevel=vlevel)
  l.set("overlaps", bad)
  expect_gfapy_error("validate_field vlevel {}".format(vlevel),
                     lambda: l.validate_field("overlaps"))
  expect_gfapy_error("validate vlevel {}".format(vlevel),
                     lambda: l.validate())
  if vlevel >= 2:
    expect_gfapy_error("field_to_s vlevel {}".format(vlevel),
                       lambda: l.field_to_s("overlaps"))

# cause: comparing a CIGAR operation with an object of another class
op = gfapy.CIGAR.Operation(3, "M")
for other in ["*", "3M", 5, None, []]:
  try:
    if op == other:
      failures.append("Operation == {!r} is True".format(other))
    if not (op != other):
      failures.append("Operation != {!r} is False".format(other))
  except Exception as e:
    failures.append("Operation == {!r}: raised {}".format(
      other, type(e).__name__))
try:
  if gfapy.Alignment("3M") == ["3M"]:
    failures.append("CIGAR == ['3M'] is True")
except Exception as e:
  failures.append("CIGAR == ['3M']: raised {}".format(type(e).__name__))

# equality of operations and valid overlaps are unaffected
if not (op == gfapy.CIGAR.Operation(3, "M")) or \
    op == gfapy.CIGAR.Operation(3, "I") or op == gfapy.CIGAR.Operation(4, "M"):
  failures.append("Operation equality is wrong")
if gfapy.Alignment("3M1D") != [gfapy.CIGAR.Operation(3, "M"),
                               gfapy.CIGAR.Operation(1, "D")]:
  failures.append("CIGAR equality is wrong")
for vlevel in [0, 1, 2, 3]:
  try:
    l = gfapy.Line(P, vlevel=vlevel)
    l.overlaps = [gfapy.Alignment("4M")]
    l.validate()
    assert str(l) == "P\tp\tA+,B-\t4M", str(l)
    l.overlaps = [gfapy.Placeholder()]
    l.validate()
    assert str(l) == "P\tp\tA+,B-\t*", str(l)
  except Exception as e:
    failures.append("valid overlaps rejected at vlevel {}: {!r}".format(
      vlevel, e))

if failures:
  print("\n".join(failures))
  sys.exit(1)
