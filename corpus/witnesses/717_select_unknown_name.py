import gfapy
import sys

failures = []
def check(label, f, expected):
  try:
    r = [str(x) for x in f()]
  except Exception as e:
    failures.append("{}: {!r}".format(label, e))
    return
  if r != expected:
    failures.append("{}: {!r} expected, got {!r}".format(label, expected, r))

g1 = gfapy.Gfa(["S\tA\t*\tLN:i:10", "S\tB\t*\tLN:i:10", "L\tA\t+\tB\t+\t2M\tID:Z:l1",
                "P\tp\tA+,B+\t2M"])
g2 = gfapy.Gfa(["S\tA\t10\t*", "S\tB\t10\t*", "E\te1\tA+\tB+\t8\t10$\t0\t2\t2M",
                "O\to\tA+ B+", "X\tcustom"])
for label, g in [("gfa1", g1), ("gfa2", g2), ("empty", gfapy.Gfa())]:
  check(label + " select name nope", lambda: g.select({"name": "nope"}), [])
  check(label + " select name nope + fields",
        lambda: g.select({"name": "nope", "record_type": "S", "LN": 10}), [])
  check(label + " select line nope",
        lambda: g.select(gfapy.Line("S\tnope\t*") if label != "gfa2"
                         else gfapy.Line("S\tnope\t10\t*")), [])
check("gfa1 select A", lambda: g1.select({"name": "A"}), ["S\tA\t*\tLN:i:10"])
check("gfa1 select A LN", lambda: g1.select({"name": "A", "LN": 10}), ["S\tA\t*\tLN:i:10"])
check("gfa1 select A LN 11", lambda: g1.select({"name": "A", "LN": 11}), [])
check("gfa1 select p", lambda: g1.select({"name": "p"}), ["P\tp\tA+,B+\t2M"])
check("gfa2 select e1", lambda: g2.select({"name": "e1"}), ["E\te1\tA+\tB+\t8\t10$\t0\t2\t2M"])

if failures:
  print("\n".join(failures))
  sys.exit(1)
print("ok")
