import gfapy
# a path that arrives before its link, the link being stored in the complement direction:
# the path must record that it traverses the link reversed, as it does when the link arrives first
def flags(order):
  g = gfapy.Gfa(vlevel=1)
  for l in order: g.add_line(l)
  return [ol.orient for ol in g.line("p1").links], str(g.dovetails[0])
S = ["S\ta\t*", "S\t10\t*"]
L = "L\ta\t+\t10\t-\t5P"
P = "P\tp1\t10+,a-\t*"
a = flags(S + [L, P]); b = flags(S + [P, L]); c = flags([P] + S + [L])
assert a[0] == ["-"], a
assert b[0] == ["-"], b
assert c[0] == ["-"], c
# forward traversal stays '+'
P2 = "P\tp1\ta+,10-\t*"
assert flags(S + [L, P2])[0] == ["+"] and flags(S + [P2, L])[0] == ["+"]
print("ok")
