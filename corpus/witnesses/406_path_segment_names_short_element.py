import gfapy
import sys

failures = []

def expect_gfapy_error(label, fn):
  try:
    fn()
  except gfapy.Error:
    return
  except Exception as e:
    failures.append("{}: raised builtin {}: {}".format(
      label, type(e).__name__, e))
    return
  failures.append("{}: no error raised".format(label))

# elements of the segment_names list of a path, from which no oriented
# line can be created (lists without a name and an orientation, empty strings)
P = "P\tp\tA+,B-\t3M"
for bad in [[[1]], [["A"]], [[]], [""], ["A+", ["B"]]]:
  l = gfapy.Line(P, vlevel=3)
  expect_gfapy_error("set segment_names {!r} vlevel 3".format(bad),
                     lambda: l.set("segment_names", bad))
  if str(l) != P:
    failures.append("rejected assignment changed the line: {!r}".format(bad))
  for vlevel in [0, 1, 2]:
    l = gfapy.Line(P, vlevel=vlevel)
    l.set("segment_names", bad)
    expect_gfapy_error("validate_field {!r} vlevel {}".format(bad, vlevel),
                       lambda: l.validate_field("segment_names"))
    expect_gfapy_error("validate {!r} vlevel {}".format(bad, vlevel),
                       lambda: l.validate())
    if vlevel >= 2:
      expect_gfapy_error("field_to_s {!r} vlevel {}".format(bad, vlevel),
                         lambda: l.field_to_s("segment_names"))

# valid forms are still accepted
for good, s in [(["A", "+"], "A+"), ("A-", "A-")]:
  try:
    ol = gfapy.OrientedLine(good)
    ol.validate()
    assert str(ol) == s, str(ol)
  except Exception as e:
    failures.append("OrientedLine({!r}) rejected: {!r}".format(good, e))
for vlevel in [0, 1, 2, 3]:
  try:
    l = gfapy.Line(P, vlevel=vlevel)
    l.segment_names = [["C", "+"], "D-"]
    l.validate()
    assert str(l) == "P\tp\tC+,D-\t3M", str(l)
  except Exception as e:
    failures.append("valid segment_names rejected at vlevel {}: {!r}".format(
      vlevel, e))

if failures:
  print("\n".join(failures))
  sys.exit(1)
