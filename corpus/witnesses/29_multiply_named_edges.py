import gfapy
pass
# GFA2, named and unnamed edges
g = gfapy.Gfa("S\tA\t10\t*\nS\tB\t10\t*\nE\te1\tA+\tB+\t5\t10$\t0\t5\t*\tKC:i:9\nE\t*\tA-\tB+\t0\t5\t0\t5\t*", vlevel=3)
g.multiply("A", 3)
assert sorted(g.segment_names) == ["A", "A*2", "A*3", "B"]
assert len(g.edges) == 6
assert g.edge_names == ["e1"], g.edge_names
assert str(g.line("e1")) == "E\te1\tA+\tB+\t5\t10$\t0\t5\t*\tKC:i:3"
assert len(g.names) == len(set(g.names))
for sn in ["A", "A*2", "A*3"]:
  assert sorted((str(e.sid1), str(e.sid2)) for e in g.segment(sn).edges) == [(sn+"+", "B+"), (sn+"-", "B+")]
  assert sorted(e.get("KC") or 0 for e in g.segment(sn).edges) == [0, 3]
gfapy.Gfa(str(g), vlevel=3).validate()
# GFA1, links and containments with ID tag
g = gfapy.Gfa("S\tA\t*\nS\tB\t*\nL\tA\t+\tB\t+\t*\tID:Z:e1\nC\tB\t+\tA\t+\t0\t*\tID:Z:c1\nL\tA\t-\tB\t+\t*", vlevel=3)
g.multiply("A", 2)
assert sorted(g.segment_names) == ["A", "A*2", "B"]
assert len(g.dovetails) == 4 and len(g.containments) == 2
assert sorted(g.edge_names) == ["c1", "e1"], g.edge_names
assert str(g.line("e1")) == "L\tA\t+\tB\t+\t*\tID:Z:e1"
assert str(g.line("c1")) == "C\tB\t+\tA\t+\t0\t*\tID:Z:c1"
assert len(g.names) == len(set(g.names))
r = gfapy.Gfa(str(g), vlevel=3)
r.validate()
assert len(r.dovetails) == 4 and len(r.containments) == 2
print("ok")
