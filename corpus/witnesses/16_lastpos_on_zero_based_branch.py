import gfapy
pass
def check(txt):
  g = gfapy.Gfa(txt, vlevel=3)
  g2 = g.to_gfa2()
  slen = {s.name: s.slen for s in g2.segments}
  for e in g2.edges:
    for sid, b, en in [(e.sid1, e.beg1, e.end1), (e.sid2, e.beg2, e.end2)]:
      for p in (b, en):
        assert gfapy.islastpos(p) == (gfapy.posvalue(p) == slen[sid.name]), (txt, str(e))
  r = gfapy.Gfa(str(g2), vlevel=3)
  r.validate()
  return g, g2
segs = "S\tA\t*\tLN:i:10\nS\tB\t*\tLN:i:10\n"
for o1 in "+-":
  for o2 in "+-":
    for n in [3, 10]:
      g, g2 = check(segs + "L\tA\t{}\tB\t{}\t{}M".format(o1, o2, n))
g, g2 = check(segs + "L\tA\t-\tB\t-\t10M")
l = g.dovetails[0]
assert str(l.end1) == "10$" and str(l.beg1) == "0", (l.beg1, l.end1)
assert str(l.beg2) == "0" and str(l.end2) == "10$"
assert str(g2.edges[0]).split("\t")[4:8] == ["0", "10$", "0", "10$"], str(g2.edges[0])
# containments, also with an empty contained segment at the end of the container
check(segs + "C\tA\t+\tB\t+\t0\t10M")
check("S\tA\t*\tLN:i:10\nS\tB\t*\tLN:i:4\nC\tA\t+\tB\t-\t6\t4M\nC\tA\t-\tB\t+\t2\t4M")
# coordinates of links of unconnected lines on the branch which needs no length still work
l = gfapy.Line("L\tA\t-\tB\t+\t3M")
assert l.from_coords == [0, 3] and l.to_coords == [0, 3]
print("ok")
