"""C08: at vlevel 3 `segment.name = "a b"` raises FormatError and the segment is no longer found."""
import sys, gfapy
g = gfapy.Gfa(version="gfa1", vlevel=3)
for l in ["S\tA\t*", "S\tB\t*", "L\tA\t+\tB\t+\t*"]:
    g.add_line(l)
before = (str(g), list(g.segment_names))
try:
    g.segment("A").name = "a b"
    print("accepted"); sys.exit(1)
except gfapy.Error:
    pass
after = (str(g), list(g.segment_names))
if before != after:
    print(before, after); sys.exit(1)
print("ok")
