import gfapy
import sys

failures = []
for text in ["X\ta\tb", "X", "Y\ta\tb\txx:i:1\tyy:Z:s", "Z\txx:i:1"]:
  for vl in [0, 1, 2, 3]:
    try:
      l = gfapy.Line(text, version="gfa2", vlevel=vl)
      c = l.clone()
      if str(c) != text:
        failures.append("{!r} vlevel={}: clone is {!r}".format(text, vl, str(c)))
      if c.positional_fieldnames != l.positional_fieldnames or c.tagnames != l.tagnames:
        failures.append("{!r} vlevel={}: fieldnames {!r} {!r}".format(text, vl,
          c.positional_fieldnames, c.tagnames))
      if c.positional_fieldnames is l.positional_fieldnames:
        failures.append("{!r} vlevel={}: fieldnames list shared with the clone".format(text, vl))
      if not (c == l):
        failures.append("{!r} vlevel={}: clone != line".format(text, vl))
      if "a" in text:
        c.field1 = "changed"
        if str(l) != text:
          failures.append("{!r} vlevel={}: line changed through the clone".format(text, vl))
      c.validate()
    except Exception as e:
      failures.append("{!r} vlevel={}: {!r}".format(text, vl, e))
try:
  g = gfapy.Gfa("S\tA\t10\t*\nX\ta\tb\txx:i:1")
  c = g.custom_records[0].clone()
  assert str(c) == "X\ta\tb\txx:i:1" and not c.is_connected()
except Exception as e:
  failures.append("connected: {!r}".format(e))
if failures:
  print("\n".join(failures))
  sys.exit(1)
print("ok")
