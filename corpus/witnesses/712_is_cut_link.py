import gfapy
import sys

failures = []
def check(label, f, expected):
  try:
    r = f()
  except Exception as e:
    failures.append("{}: {!r}".format(label, e))
    return
  if r != expected:
    failures.append("{}: {!r} expected, got {!r}".format(label, expected, r))

# chain A-B-C, triangle D-E-F, G with a self-loop, H-I joined by two links
lines = ["S\tA\t*\tLN:i:10", "S\tB\t*\tLN:i:10", "S\tC\t*\tLN:i:10",
         "S\tD\t*\tLN:i:10", "S\tE\t*\tLN:i:10", "S\tF\t*\tLN:i:10",
         "S\tG\t*\tLN:i:10", "S\tH\t*\tLN:i:10", "S\tI\t*\tLN:i:10",
         "L\tA\t+\tB\t+\t2M\tID:Z:ab", "L\tB\t+\tC\t+\t2M\tID:Z:bc",
         "L\tD\t+\tE\t+\t2M\tID:Z:de", "L\tE\t+\tF\t+\t2M\tID:Z:ef",
         "L\tF\t+\tD\t+\t2M\tID:Z:fd", "L\tG\t+\tG\t+\t2M\tID:Z:gg",
         "L\tH\t+\tI\t+\t2M\tID:Z:hi1", "L\tH\t+\tI\t-\t2M\tID:Z:hi2"]
expected = {"ab": True, "bc": True, "de": False, "ef": False, "fd": False,
            "gg": False, "hi1": False, "hi2": False}
g1 = gfapy.Gfa(lines)
g2 = gfapy.Gfa(gfapy.Gfa(lines).to_gfa2_s())
for label, g in [("gfa1", g1), ("gfa2", g2)]:
  before = str(g)
  edges = {}
  for e in g.dovetails:
    edges[e.get("ID") if label == "gfa1" else e.name] = e
  assert sorted(edges) == sorted(expected), sorted(edges)
  for name in sorted(expected):
    check("{} is_cut_link({})".format(label, name),
          lambda: g.is_cut_link(edges[name]), expected[name])
  if str(g) != before:
    failures.append(label + ": graph changed")

# both links at the same end of A, the other end of A is a dead end:
# the link to B is not a cut link, as B is reached through C
g = gfapy.Gfa(["S\tA\t*", "S\tB\t*", "S\tC\t*",
               "L\tA\t+\tB\t+\t*", "L\tA\t+\tC\t+\t*", "L\tC\t+\tB\t-\t*"])
for e in g.dovetails:
  check("is_cut_link({})".format(e), lambda: g.is_cut_link(e), False)

if failures:
  print("\n".join(failures))
  sys.exit(1)
print("ok")
