"""C01/C04: an f value (or B:f element) beyond the double range is read as infinity and written as an invalid line."""
import sys, gfapy
bad = 0
for lvl in (0, 1, 2, 3):
    for text in ("S\t1\t*\txx:f:1e400", "S\t1\t*\txx:B:f,2,-1e999", "H\txx:f:1.8e308"):
        try:
            g = gfapy.Gfa(text, vlevel=lvl)
            out = str(g)
        except gfapy.Error:
            continue
        except Exception as e:
            bad += 1; print("FAIL foreign", lvl, repr(text), type(e).__name__); continue
        if "inf" in out or "INVALID" in out:
            bad += 1; print("FAIL written", lvl, repr(out))
    # what fits is kept
    s = gfapy.Gfa("S\t1\t*\txx:f:1e300\tyy:B:f,1e300", vlevel=lvl).segments[0]
    if s.xx != 1e300 or list(s.yy) != [1e300] or "INVALID" in str(s):
        bad += 1; print("FAIL kept", lvl)
sys.exit(1 if bad else 0)
