import gfapy
import sys

failures = []

def expect_error(label, fn, errclass=gfapy.Error):
  try:
    fn()
  except errclass:
    return
  except Exception as e:
    failures.append("{}: raised {} instead of {}".format(
      label, type(e).__module__ + "." + type(e).__name__, "gfapy." + errclass.__name__))
    return
  failures.append("{}: no error raised".format(label))

C = "C\tA\t+\tB\t+\t1\t*"

for bad in [1.5, 2.0, [1], {"a": 1}]:
  # assignment at level 3
  l = gfapy.Line(C, vlevel=3)
  expect_error("set pos {!r} vlevel 3".format(bad),
               lambda: l.set("pos", bad), gfapy.TypeError)
  def assign():
    l.pos = bad
  expect_error("l.pos = {!r} vlevel 3".format(bad), assign, gfapy.TypeError)
  if l.pos != 1 or str(l) != C:
    failures.append("pos changed by rejected assignment of {!r}".format(bad))
  # explicit validation at every level, writing at level 2
  for vlevel in [0, 1, 2]:
    l = gfapy.Line(C, vlevel=vlevel)
    l.set("pos", bad)
    expect_error("validate_field pos {!r} vlevel {}".format(bad, vlevel),
                 lambda: l.validate_field("pos"), gfapy.TypeError)
    expect_error("validate pos {!r} vlevel {}".format(bad, vlevel),
                 lambda: l.validate(), gfapy.TypeError)
    if vlevel >= 2:
      expect_error("field_to_s pos {!r} vlevel {}".format(bad, vlevel),
                   lambda: l.field_to_s("pos"), gfapy.TypeError)

# negative positions are still a ValueError
l = gfapy.Line(C, vlevel=3)
expect_error("set pos -1", lambda: l.set("pos", -1), gfapy.ValueError)

# valid values are accepted at every level
for good in [0, 12, "12"]:
  for vlevel in [0, 1, 2, 3]:
    l = gfapy.Line(C, vlevel=vlevel)
    try:
      l.pos = good
      l.validate()
      assert str(l) == "C\tA\t+\tB\t+\t{}\t*".format(good), str(l)
      assert l.pos == int(good)
    except Exception as e:
      failures.append("valid pos {!r} rejected at vlevel {}: {!r}".format(
        good, vlevel, e))

if failures:
  print("\n".join(failures))
  sys.exit(1)
