"""C07: long P list with an invalid character (exponential validation), int() digit limit through set(), validate_field of an
absent tag, read_file with progress logging on an undecodable file."""
import sys, os, signal, tempfile, gfapy
bad = 0
def alarm(*a): raise TimeoutError()
signal.signal(signal.SIGALRM, alarm)
signal.alarm(20)
try:
    try:
        gfapy.Line("P\tp\t" + ",".join(["a+"] * 60) + "\x7f\t*")
    except gfapy.Error:
        pass
    signal.alarm(0)
    print("ok   long list")
except TimeoutError:
    bad += 1; print("FAIL long P list: no answer within 20 s")
def chk(label, fn):
    global bad
    try:
        fn(); print("ok  ", label)
    except gfapy.Error as e:
        print("ok  ", label, type(e).__name__)
    except Exception as e:
        bad += 1; print("FAIL", label, type(e).__name__)
l = gfapy.Line("E\te\ta+\tb+\t0\t1\t0\t1\t*", vlevel=3)
chk("set alignment 5000 digits M", lambda: l.set("alignment", "9" * 5000 + "M"))
chk("set alignment trace 5000 digits", lambda: l.set("alignment", "1," + "9" * 5000))
chk("validate_field absent", lambda: gfapy.Line("S\ta\t*").validate_field("zz"))
fn = tempfile.mktemp()
open(fn, "wb").write(b"S\ta\t*\nS\t\xff\xfe\t*\n")
def rf():
    g = gfapy.Gfa(); g.enable_progress_logging(part=0.5, channel=open(os.devnull, "w")); g.read_file(fn)
chk("read_file with progress logging", rf)
os.unlink(fn)
sys.exit(1 if bad else 0)
