"""C07: a chain of 500 nested groups raises RecursionError in captured_path, induced_set and Gfa.rm (which then leaves the
graph half disconnected)."""
import sys, gfapy
bad = []
for rt, item in (("O", "%s+"), ("U", "%s")):
    g = gfapy.Gfa(version="gfa2")
    g.add_line("S\tA\t10\t*")
    prev = "A"
    for i in range(500):
        g.add_line("%s\tg%d\t%s" % (rt, i, item % prev)); prev = "g%d" % i
    top = g.line(prev)
    for name, f in (("resolve", (lambda: top.captured_path) if rt == "O" else (lambda: top.induced_set)),
                    ("str", lambda: str(g)), ("validate", lambda: g.validate()), ("rm", lambda: g.rm("A"))):
        try:
            f()
        except gfapy.Error:
            pass
        except Exception as e:
            bad.append("%s-chain %s: %s" % (rt, name, type(e).__name__))
    if str(g) != "":
        bad.append("%s-chain: rm('A') left %d lines" % (rt, len(g.lines)))
if bad:
    print("\n".join(bad)); sys.exit(1)
print("ok")
