import gfapy
g = gfapy.Gfa("S\tA\t*\nS\tB\t*\n")
assert str(g) == "S\tA\t*\nS\tB\t*", repr(str(g))
assert str(gfapy.Gfa("S\tA\t*\n")) == "S\tA\t*"
# an empty line inside the text is still refused with a gfapy error
try:
  gfapy.Gfa("S\tA\t*\n\nS\tB\t*")
  raise AssertionError("blank line accepted")
except gfapy.FormatError:
  pass
try:
  gfapy.Gfa().add_line("")
  raise AssertionError("empty line accepted")
except gfapy.FormatError:
  pass
print("ok")
