import gfapy
pass
# A. single-definition tag conflict must not leave the other tags merged
for vlevel in [0, 1, 2, 3]:
  for version in [None, "gfa1", "gfa2"]:
    g = gfapy.Gfa(vlevel=vlevel, version=version)
    g.add_line("H\tTS:i:3")
    g.add_line("H\tbb:i:7")
    before = str(g)
    try:
      g.add_line("H\taa:i:1\tTS:i:5\tbb:i:8")
    except gfapy.InconsistencyError:
      pass
    else:
      raise AssertionError("TS redefinition accepted")
    assert str(g) == before, (vlevel, version, str(g))
    assert g.header.aa is None and g.header.bb == 7
    # compatible redefinition and additional tags still merge
    g.add_line("H\taa:i:1\tTS:i:3\tbb:i:8")
    assert g.header.aa == 1 and g.header.TS == 3 and g.header.bb == [7, 8], str(g)
# datatype conflict (checked at vlevel >= 2)
for vlevel in [2, 3]:
  g = gfapy.Gfa(vlevel=vlevel)
  g.add_line("H\tbb:i:7")
  before = str(g)
  try:
    g.add_line("H\taa:i:1\tbb:Z:x")
  except gfapy.InconsistencyError:
    pass
  else:
    raise AssertionError("datatype change accepted")
  assert str(g) == before, str(g)
# B. unsupported VN must not be stored
for vlevel in [1, 2, 3]:
  g = gfapy.Gfa(vlevel=vlevel)
  g.add_line("H\txx:i:1")
  try:
    g.add_line("H\tVN:Z:3.0\tyy:i:2")
  except gfapy.VersionError:
    pass
  else:
    raise AssertionError("VN 3.0 accepted")
  assert g.version is None, g.version
  assert g.header.VN is None and g.header.yy is None, str(g)
  assert str(g) == "H\txx:i:1"
  g.add_line("H\tVN:Z:1.0")
  assert g.version == "gfa1" and g.header.VN == "1.0"
  g.add_line("S\tA\t*")
  assert str(gfapy.Gfa(str(g), vlevel=3)) == str(g)
print("ok")
