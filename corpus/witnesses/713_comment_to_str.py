import gfapy
import sys

failures = []
for text in ["# c", "#c", "#  two\ttabs", "#"]:
  for vl in [0, 1, 2, 3]:
    try:
      l = gfapy.Line(text, vlevel=vl)
      for kw in [{}, {"add_virtual_commentary": True}, {"add_virtual_commentary": False}]:
        s = l.to_str(**kw)
        if s != str(l) or s != text:
          failures.append("{!r} vlevel={} to_str({}): {!r}".format(text, vl, kw, s))
        a = l.to_list(**kw)
        if a != ["#", l.content, l.spacer]:
          failures.append("{!r} vlevel={} to_list({}): {!r}".format(text, vl, kw, a))
    except Exception as e:
      failures.append("{!r} vlevel={}: {!r}".format(text, vl, e))
try:
  g = gfapy.Gfa("# c\nS\tA\t*")
  assert g.comments[0].to_str() == "# c"
except Exception as e:
  failures.append("connected comment: {!r}".format(e))
if failures:
  print("\n".join(failures))
  sys.exit(1)
print("ok")
