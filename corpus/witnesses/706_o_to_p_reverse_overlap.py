import gfapy
import sys

failures = []

g1 = gfapy.Gfa(["S\tA\t*\tLN:i:12", "S\tB\t*\tLN:i:6",
                "L\tA\t+\tB\t+\t1M1I2M\tID:Z:e1",
                "P\tp\tB-,A-\t2M1D1M"], vlevel=3)
g2 = gfapy.Gfa(g1.to_gfa2_s(), vlevel=3)
back = g2.to_gfa1_s()
exp = "P\tp\tB-,A-\t2M1D1M"
if exp not in back.split("\n"):
  failures.append("P after GFA1->GFA2->GFA1: {!r} expected, got {!r}".format(exp,
    [l for l in back.split("\n") if l[0] == "P"]))
try:
  g1b = gfapy.Gfa(back, vlevel=3)
  links = [l for l in g1b.dovetails]
  if len(links) != 1:
    failures.append("converted graph has {} links: {!r}".format(len(links), [str(l) for l in links]))
  pl = g1b.line("p").links[0]
  if pl.line.get("ID") != "e1" or pl.orient != "-" or pl.line.virtual:
    failures.append("path does not refer to the link e1 in reverse: {!r}".format(pl))
except gfapy.Error as e:
  failures.append("converted graph invalid: {!r}".format(e))

# directly from GFA2: the edge is traversed in reverse in the group
g2 = gfapy.Gfa(["S\tA\t12\t*", "S\tB\t6\t*", "S\tC\t9\t*",
                "E\te1\tA+\tB+\t9\t12$\t0\t4\t1M1I2M",
                "E\te2\tB+\tC+\t3\t6$\t0\t3\t3M",
                "O\tfw\tA+ e1+ B+ e2+ C+",
                "O\trv\tC- e2- B- e1- A-",
                "O\trv2\tC- B- A-"], vlevel=3)
out = g2.to_gfa1_s().split("\n")
for exp in ["P\tfw\tA+,B+,C+\t1M1I2M,3M",
            "P\trv\tC-,B-,A-\t3M,2M1D1M",
            "P\trv2\tC-,B-,A-\t3M,2M1D1M"]:
  if exp not in out:
    failures.append("{!r} expected, got {!r}".format(exp, [l for l in out if l[0] == "P"]))
# the source group is not changed
if str(g2.line("rv")) != "O\trv\tC- e2- B- e1- A-":
  failures.append("source changed")

if failures:
  print("\n".join(failures))
  sys.exit(1)
print("ok")
