import gfapy, math
pass
def expect_error(f, what, cls=gfapy.FormatError):
  try:
    f()
  except cls:
    return
  except Exception as e:
    raise AssertionError("{}: {} {}".format(what, type(e).__name__, e))
  raise AssertionError("{}: accepted".format(what))
bad_tags = ["xx:i:1_0", "xx:i: 5", "xx:i:5 ", "xx:i:\u0661", "xx:i:0x10",
            "xx:f:inf", "xx:f:-inf", "xx:f:nan", "xx:f:1_0.5", "xx:f: 1.0", "xx:f:infinity", "xx:f:5.",
            "xx:H:ab", "xx:H:aB", "xx:H:A B0",
            "xx:B:c,1_0", "xx:B:f,inf", "xx:B:c, 5", "xx:B:f,nan", "xx:B:C,-1", "xx:B:c,1.0", "xx:B:f,abc", "xx:B:f,1.",
            "xx:J:1", "xx:J:null", "xx:J:true", "xx:J:1.5"]
good_tags = [("xx:i:10", 10), ("xx:i:-5", -5), ("xx:i:+5", 5), ("xx:f:1e5", 1e5), ("xx:f:.5", 0.5), ("xx:f:-1.5E-3", -1.5e-3),
             ("xx:f:3", 3.0), ("xx:H:AB01", gfapy.ByteArray("AB01")), ("xx:B:c,-1,2", [-1, 2]), ("xx:B:f,1.5,2", [1.5, 2.0]),
             ("xx:B:C,+5", [5]), ("xx:J:[1,2]", [1, 2]), ("xx:J:{\"a\":1}", {"a": 1}), ("xx:J:[]", [])]
for vlevel in [1, 2, 3]:
  for t in bad_tags:
    # (for B arrays the suite pins gfapy.ValueError for invalid elements)
    cls = (gfapy.FormatError, gfapy.ValueError) if ":B:" in t else gfapy.FormatError
    expect_error(lambda: gfapy.Line("S\tA\t*\t"+t, vlevel=vlevel), (t, vlevel), cls)
    expect_error(lambda: gfapy.Gfa("S\tA\t*\t"+t, vlevel=vlevel), ("gfa", t, vlevel), cls)
  for t, v in good_tags:
    l = gfapy.Line("S\tA\t*\t"+t, vlevel=vlevel)
    assert l.xx == v, (t, l.xx)
    l.validate()
    gfapy.Line(str(l), vlevel=3)
  # positional fields
  for s in ["G\tg\tA+\tB+\t1_0\t*", "G\tg\tA+\tB+\t10\t 5", "G\tg\tA+\tB+\t10\t1_0", "G\tg\tA+\tB+\t 10\t*",
            "C\tA\t+\tB\t+\t1_0\t*", "C\tA\t+\tB\t+\t+5\t*", "C\tA\t+\tB\t+\t 5\t*",
            "E\t*\tA+\tB+\t1_0\t20$\t0\t5\t*", "E\t*\tA+\tB+\t10\t2_0$\t0\t5\t*", "E\t*\tA+\tB+\t10\t20$\t 0\t5\t*",
            "E\t*\tA+\tB+\t10\t20$\t0\t+5\t*", "F\tA\tr+\t0\t1_0\t0\t10\t*", "S\tA\t1_0\t*", "S\tA\t 10\t*"]:
    expect_error(lambda: gfapy.Line(s, vlevel=vlevel), (s, vlevel))
  for s in ["G\tg\tA+\tB+\t-10\t*", "G\tg\tA+\tB+\t10\t5", "C\tA\t+\tB\t+\t5\t*", "E\t*\tA+\tB+\t10\t20$\t0\t5\t*", "S\tA\t10\t*"]:
    assert str(gfapy.Line(s, vlevel=vlevel)) == s
  # negative positions: still an error of the library
  for s in ["C\tA\t+\tB\t+\t-5\t*", "E\t*\tA+\tB+\t-1\t20$\t0\t5\t*"]:
    expect_error(lambda: gfapy.Line(s, vlevel=vlevel), (s, vlevel), gfapy.Error)
print("ok")
