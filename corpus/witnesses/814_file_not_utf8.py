"""C07: from_file of a file with bytes that are not UTF-8 raises UnicodeDecodeError."""
import sys, os, tempfile, gfapy
fd, path = tempfile.mkstemp()
os.write(fd, b"S\tA\t*\n#\xff\xfe\n"); os.close(fd)
try:
    gfapy.Gfa.from_file(path)
except gfapy.Error:
    pass
except Exception as e:
    print("foreign", type(e).__name__); sys.exit(1)
finally:
    os.unlink(path)
print("ok")
