import gfapy
import sys

failures = []

def expect_error(label, fn, errclass=gfapy.Error):
  try:
    fn()
  except errclass:
    return
  except Exception as e:
    failures.append("{}: raised {} instead of {}".format(
      label, type(e).__module__ + "." + type(e).__name__, "gfapy." + errclass.__name__))
    return
  failures.append("{}: no error raised".format(label))

# a value of a wrong class assigned to an f tag is reported at the
# assignment at level 3
for bad in [{"a": 1}, [1.0, "x"]]:
  l = gfapy.Line("S\tA\t*\txf:f:1.5", vlevel=3)
  expect_error("set {!r} at vlevel 3".format(bad),
               lambda: l.set("xf", bad), gfapy.TypeError)

# ... by explicit validation at every level, and when written at level 2
for vlevel in [0, 1, 2]:
  l = gfapy.Line("S\tA\t*\txf:f:1.5", vlevel=vlevel)
  l.set("xf", {"a": 1})
  expect_error("validate_field dict vlevel {}".format(vlevel),
               lambda: l.validate_field("xf"), gfapy.TypeError)
  expect_error("validate dict vlevel {}".format(vlevel),
               lambda: l.validate(), gfapy.TypeError)
  if vlevel >= 2:
    expect_error("field_to_s dict vlevel {}".format(vlevel),
                 lambda: l.field_to_s("xf"), gfapy.TypeError)

# non-finite floats cannot be written in the f grammar
for bad in [float("inf"), float("-inf"), float("nan")]:
  l = gfapy.Line("S\tA\t*\txf:f:1.5", vlevel=3)
  expect_error("set {!r} at vlevel 3".format(bad),
               lambda: l.set("xf", bad), gfapy.ValueError)
  for vlevel in [0, 1, 2]:
    l = gfapy.Line("S\tA\t*\txf:f:1.5", vlevel=vlevel)
    l.set("xf", bad)
    expect_error("validate {!r} vlevel {}".format(bad, vlevel),
                 lambda: l.validate(), gfapy.ValueError)
    if vlevel >= 2:
      expect_error("field_to_s {!r} vlevel {}".format(bad, vlevel),
                   lambda: l.field_to_s("xf"))

# valid values are never rejected
for v in [1.5, 2, -3.0e-5, 1e300, "1.5", "-2e10", 0]:
  for vlevel in [0, 1, 2, 3]:
    l = gfapy.Line("S\tA\t*\txf:f:1.5", vlevel=vlevel)
    try:
      l.set("xf", v)
      l.validate()
      s = str(l)
      assert "INVALID" not in s, s
      gfapy.Line(s, vlevel=3).validate()
    except Exception as e:
      failures.append("valid value {!r} rejected at vlevel {}: {!r}".format(
        v, vlevel, e))

if failures:
  print("\n".join(failures))
  sys.exit(1)
