import gfapy
pass
cases = [("S\tA\t10\t*\nS\tB\t10\t*", "U\tA\tB"),
         ("S\tA\t10\t*\nS\tB\t10\t*", "O\tA\tB+"),
         ("S\tA\t10\t*\nS\tB\t10\t*\nE\te\tA+\tB+\t0\t10$\t0\t10$\t*", "U\te\tB"),
         ("S\tA\t10\t*\nS\tB\t10\t*\nU\tu\tA", "O\tu\tB+"),
         ("S\tA\t10\t*\nS\tB\t10\t*\nO\tu\tA+", "U\tu\tB"),
         ("S\tA\t10\t*\nS\tB\t10\t*\nG\tu\tA+\tB+\t10\t*", "U\tu\tB")]
for base, extra in cases:
  g = gfapy.Gfa(base, version="gfa2")
  before = sorted(str(g).split("\n"))
  try:
    g.add_line(extra)
  except gfapy.NotUniqueError:
    pass
  else:
    raise AssertionError("accepted: " + extra)
  assert sorted(str(g).split("\n")) == before, str(g)
  gfapy.Gfa(str(g), vlevel=3).validate()
# merging of same-class groups still works
g = gfapy.Gfa("S\tA\t10\t*\nS\tB\t10\t*\nU\tu\tA\nU\tu\tB\nO\to\tA+\nO\to\tB+", version="gfa2")
assert str(g.line("u")) == "U\tu\tA B", str(g.line("u"))
assert str(g.line("o")) == "O\to\tA+ B+", str(g.line("o"))
print("ok")
