"""C10: searching for a record type the Gfa does not hold creates a registry entry; custom records added later are written in another order."""
import sys, gfapy
def build(ask):
    g = gfapy.Gfa(version="gfa2")
    g.add_line("S\ta\t10\t*")
    if ask:
        g.select({"record_type": "Y"})
        g.custom_records_of_type("Y")
    g.add_line("X\t1"); g.add_line("Y\t2")
    return str(g).split("\n")
a, b = build(True), build(False)
print(a, b)
sys.exit(0 if a == b else 1)
