import gfapy
import sys

failures = []

def check_assignment_reported(label, line, version, field, value):
  l = gfapy.Line(line, version=version, vlevel=3)
  before = str(l)
  old = l.get(field)
  try:
    setattr(l, field, value)
  except Exception:
    pass
  else:
    failures.append("{}: the invalid assignment is silently ignored".format(
      label))
  # the attribute must still be the field of the line,
  # not a plain Python attribute shadowing it
  try:
    current = getattr(l, field)
  except Exception as e:
    current = e
  if repr(current) != repr(old) or repr(l.get(field)) != repr(old):
    failures.append("{}: l.{} is {!r}, the field value is {!r}".format(
      label, field, current, l.get(field)))
  if str(l) != before:
    failures.append("{}: the line changed to {!r}".format(label, str(l)))
  # a valid assignment after the rejected one still reaches the field
  return l

# H tag assigned a float
l = check_assignment_reported("xh = 1.5", "S\tA\t*\txh:H:0A", "gfa1", "xh", 1.5)
l.xh = gfapy.ByteArray([255])
if str(l) != "S\tA\t*\txh:H:FF":
  failures.append("xh: valid assignment after the rejected one is lost: " +
                  str(l))

# errors raised inside of the setter of a positional field
# (the validation of this oriented line fails accessing the line name)
l = check_assignment_reported("sid1 = OrientedLine(5,'+')",
      "E\te\tA+\tB-\t0\t3\t7\t10$\t3M", "gfa2", "sid1",
      gfapy.OrientedLine(5, "+"))
l.sid1 = gfapy.OrientedLine("C", "-")
if str(l) != "E\te\tC-\tB-\t0\t3\t7\t10$\t3M":
  failures.append("sid1: valid assignment after the rejected one is lost: " +
                  str(l))

# errors raised inside of the setter of a new tag
l = gfapy.Line("S\tA\t*", vlevel=3)
l.set_datatype("xh", "H")
try:
  l.xh = 1.5
except Exception:
  pass
else:
  failures.append("new tag xh = 1.5: the invalid assignment is ignored")
if l.xh is not None or l.tagnames != []:
  failures.append("new tag xh = 1.5: l.xh is {!r}, tags {}".format(
    l.xh, l.tagnames))

# names which are not fields or tags of the line are plain attributes
l = gfapy.Line("S\tA\t*\txh:H:0A", vlevel=3)
l.some_attribute = 12
if l.some_attribute != 12 or str(l) != "S\tA\t*\txh:H:0A":
  failures.append("plain attribute is not set")
# tags can be created, changed and deleted using attributes
l.xx = 12
l.xh = "0B"
l.name = "B"
if str(l) != "S\tB\t*\txh:H:0B\txx:i:12":
  failures.append("assignment using attributes: " + str(l))
l.xx = None
if l.tagnames != ["xh"]:
  failures.append("tag deletion using attributes: " + str(l))

if failures:
  print("\n".join(failures))
  sys.exit(1)
