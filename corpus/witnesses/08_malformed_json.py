import gfapy
pass
def expect_format_error(f, what):
  try:
    f()
  except gfapy.FormatError as e:
    return str(e)
  except Exception as e:
    raise AssertionError("{}: {} {}".format(what, type(e).__name__, e))
  raise AssertionError("{}: accepted".format(what))
for bad in ["{", "[1,", "{'a':1}", "[1 2]", "{\"a\"}"]:
  for vlevel in [1, 2, 3]:
    msg = expect_format_error(lambda: gfapy.Line("S\tA\t*\txx:J:"+bad, vlevel=vlevel), (bad, vlevel))
    assert "xx" in msg and bad in msg, msg
  # lazily parsed at level 0: error on access / validation
  l = gfapy.Line("S\tA\t*\txx:J:"+bad, vlevel=0)
  expect_format_error(lambda: l.validate(), ("validate", bad))
  l = gfapy.Line("S\tA\t*\txx:J:"+bad, vlevel=0)
  expect_format_error(lambda: l.xx, ("lazy access at vlevel 0", bad))
  l = gfapy.Line("S\tA\t*", vlevel=3)
  l.set_datatype("xx", "J")
  expect_format_error(lambda: l.set("xx", bad), ("set", bad))
  expect_format_error(lambda: gfapy.Field._validate_gfa_field(bad, "J"), ("validate_encoded", bad))
  expect_format_error(lambda: gfapy.Gfa("S\tA\t*\txx:J:"+bad, vlevel=1), ("gfa", bad))
l = gfapy.Line("S\tA\t*\txx:J:{\"a\":[1,2]}", vlevel=3)
assert l.xx == {"a": [1, 2]}
print("ok")
