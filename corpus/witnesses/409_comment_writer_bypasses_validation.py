import gfapy
import sys

failures = []

def expect_error(label, fn, errclass=gfapy.Error):
  try:
    fn()
  except errclass:
    return
  except Exception as e:
    failures.append("{}: raised {}.{} instead of gfapy.{}".format(
      label, type(e).__module__, type(e).__name__, errclass.__name__))
    return
  failures.append("{}: no error raised".format(label))

for field in ["content", "spacer"]:
  for bad, errclass in [(5, gfapy.TypeError), (["a"], gfapy.TypeError),
                        ("a\nb", gfapy.FormatError)]:
    label = "{} = {!r}".format(field, bad)
    # reported at the assignment at level 3
    c = gfapy.Line("# hello", vlevel=3)
    expect_error(label + ": set at vlevel 3", lambda: c.set(field, bad),
                 errclass)
    def assign():
      setattr(c, field, bad)
    expect_error(label + ": assignment at vlevel 3", assign, errclass)
    if str(c) != "# hello":
      failures.append(label + ": rejected assignment changed the line: " +
                      repr(str(c)))
    for vlevel in [0, 1, 2]:
      c = gfapy.Line("# hello", vlevel=vlevel)
      c.set(field, bad)
      # explicit validation at every level
      expect_error(label + ": validate_field at vlevel {}".format(vlevel),
                   lambda: c.validate_field(field), errclass)
      expect_error(label + ": validate at vlevel {}".format(vlevel),
                   lambda: c.validate(), errclass)
      if vlevel >= 2:
        # the invalid value is not silently written
        expect_error(label + ": field_to_s at vlevel {}".format(vlevel),
                     lambda: c.field_to_s(field), errclass)
        try:
          s = str(c)
        except gfapy.Error:
          s = None
        if s is not None and "# INVALID" not in s:
          failures.append(label + ": str() at vlevel {} writes {!r}".format(
            vlevel, s))

# valid comments are written as before at every level
for vlevel in [0, 1, 2, 3]:
  for line in ["# hello", "#hello", "#\thello\tab:Z:1", "#  two spaces",
               "# with # INVALID inside", "#"]:
    try:
      c = gfapy.Line(line, vlevel=vlevel)
      assert str(c) == line, str(c)
      c.validate()
    except Exception as e:
      failures.append("{!r} at vlevel {}: {!r}".format(line, vlevel, e))
  try:
    c = gfapy.Line("# hello", vlevel=vlevel)
    c.content = "a\tb"
    c.spacer = "  "
    c.validate()
    assert str(c) == "#  a\tb", str(c)
    assert c.to_list() == ["#", "a\tb", "  "], c.to_list()
  except Exception as e:
    failures.append("valid assignment at vlevel {}: {!r}".format(vlevel, e))

if failures:
  print("\n".join(failures))
  sys.exit(1)
