import gfapy
pass
def expect_error(f, what, cls=gfapy.Error):
  try:
    r = f()
  except cls:
    return
  except Exception as e:
    raise AssertionError("{}: {} {}".format(what, type(e).__name__, e))
  raise AssertionError("{}: accepted ({})".format(what, repr(r)))
def one_line(l):
  s = str(l)
  assert "\n" not in s, repr(s)
# setting values with a trailing newline on a validating line
for fn, dt, v in [("xx", "Z", "abc\n"), ("xx", "i", "12\n"), ("xx", "f", "1.5\n"), ("xx", "A", "a\n"), ("xx", "H", "AB\n"),
                  ("xx", "B", "c,1,2\n"), ("xx", "J", "[1]\n")]:
  l = gfapy.Line("S\tA\t*", vlevel=3)
  l.set_datatype(fn, dt)
  expect_error(lambda: l.set(fn, v), (fn, dt, v))
  one_line(l)
  l = gfapy.Line("S\tA\t*", vlevel=0)
  l.set_datatype(fn, dt)
  l.set(fn, v)
  expect_error(lambda: l.validate(), ("validate", fn, dt, v))
l = gfapy.Line("S\tA\t*", vlevel=3)
# (a new tag is validated when it is first read/written, exactly as for a tab in the value)
expect_error(lambda: (l.set("xx", "abc\n"), str(l)), "default datatype")
l = gfapy.Line("S\tA\t*", vlevel=3)
expect_error(lambda: l.set("xx\n", 1), "tag name")
one_line(l)
# names and positional fields
for s, fn, v in [("S\tA\t*", "name", "B\n"), ("S\tA\t*", "sequence", "ACGT\n"), ("S\tA\t*", "sequence", "*\n"),
                 ("S\tA\t10\t*", "sid", "B\n"), ("S\tA\t10\t*", "sequence", "ACGT\n"),
                 ("L\tA\t+\tB\t+\t*", "from_segment", "A\n"), ("L\tA\t+\tB\t+\t*", "overlap", "3M\n"),
                 ("C\tA\t+\tB\t+\t0\t*", "pos", "10\n"), ("P\tp\tA+,B+\t*", "path_name", "q\n"),
                 ("P\tp\tA+,B+\t*", "segment_names", "A+,B+\n"), ("P\tp\tA+,B+\t*", "overlaps", "3M\n"),
                 ("E\t*\tA+\tB+\t0\t10$\t0\t10$\t*", "eid", "e\n"), ("E\t*\tA+\tB+\t0\t10$\t0\t10$\t*", "sid1", "A+\n"),
                 ("E\t*\tA+\tB+\t0\t10$\t0\t10$\t*", "beg1", "3\n"), ("E\t*\tA+\tB+\t0\t10$\t0\t10$\t*", "end1", "10$\n"),
                 ("G\tg\tA+\tB+\t10\t*", "var", "5\n"), ("G\tg\tA+\tB+\t10\t*", "disp", "5\n"),
                 ("U\tu\tA B", "items", "A B\n"), ("O\to\tA+ B+", "items", "A+ B+\n"), ("O\to\tA+ B+", "pid", "o\n"),
                 ("X\tab", "record_type", "X\n")]:
  l = gfapy.Line(s, vlevel=3)
  if fn != "record_type":
    expect_error(lambda: l.set(fn, v), (s, fn, v))
    one_line(l)
  l = gfapy.Line(s, vlevel=0)
  if fn != "record_type":
    l.set(fn, v)
    expect_error(lambda: (l.validate(), str(gfapy.Line(str(l).split("\t"), vlevel=3)))[0], ("validate", s, fn, v))
# parsing: the last field of a line string with a trailing newline
for s in ["S\tA\t*\n", "S\tA\t*\txx:i:1\n", "S\tA\t*\txx:Z:abc\n", "L\tA\t+\tB\t+\t3M\n", "E\t*\tA+\tB+\t0\t10$\t0\t10$\t*\n",
          "C\tA\t+\tB\t+\t0\t3M\n", "P\tp\tA+,B+\t3M\n", "U\tu\tA B\n", "O\to\tA+ B+\n", "G\tg\tA+\tB+\t10\t5\n", "F\tA\tr+\t0\t1\t0\t1$\t*\n"]:
  for vlevel in [1, 2, 3]:
    expect_error(lambda: gfapy.Line(s, vlevel=vlevel), (s, vlevel))
# objects
for f in [lambda: gfapy.OrientedLine("A\n", "+").validate(), lambda: gfapy.SegmentEnd("A\n", "L").validate(),
          lambda: gfapy.Alignment("3M\n", version="gfa1"), lambda: gfapy.Alignment("3M\n", version="gfa2"),
          lambda: gfapy.NumericArray.from_string("c,1\n")]:
  expect_error(f, "object")
# valid content is still accepted
g = gfapy.Gfa("H\tVN:Z:1.0\nS\tA\tACGT\txx:i:-1\tyy:f:1.5e3\tzz:A:a\thh:H:AB\tbb:B:c,1,2\tjj:J:[1]\nS\tB\t*\nL\tA\t+\tB\t-\t3M\nC\tA\t+\tB\t+\t0\t3M\nP\tp\tA+,B-\t3M", vlevel=3)
g.validate()
g2 = gfapy.Gfa("S\tA\t10\tACGTACGTAC\nS\tB\t10\t*\nE\te\tA+\tB-\t0\t10$\t0\t10$\t10M\nG\tg\tA+\tB+\t10\t*\nU\tu\tA B\nO\to\tA+ e+ B-\nF\tA\tr+\t0\t1\t0\t1$\t*\nX\tcustom field", vlevel=3)
g2.validate()
print("ok")
