import gfapy
import sys

failures = []
cases = [
  ("P\tp\t\t*", "gfa1", "segment_names"),
  ("P\tp\tA\t*", "gfa1", "segment_names"),
  ("P\tp\tA+,,B-\t*", "gfa1", "segment_names"),
  ("O\to\t", "gfa2", "items"),
  ("L\tA\t+\tB\t+\txM", "gfa1", "overlap"),
  ("L\tA\t+\tB\t+\t1M,", "gfa1", "overlap"),
  ("E\t*\tA+\tB+\t0\t1\t0\t1\t4,x", "gfa2", "alignment"),
  ("S\tA\t*\txx:B:i,1,x", "gfa1", "xx"),
  ("S\tA\t*\txx:B:f,1,x", "gfa1", "xx"),
  ("S\tA\t*\txx:B:q,1", "gfa1", "xx"),
  ("S\tA\t*\txx:H:0G", "gfa1", "xx"),
  ("S\tA\t*\txx:H:012", "gfa1", "xx"),
  ("S\tA\t*\txx:J:{", "gfa1", "xx"),
]
for text, version, fn in cases:
  try:
    l = gfapy.Line(text, vlevel=0, version=version)
  except gfapy.Error:
    continue
  except Exception as e:
    failures.append("{!r} construction: {!r}".format(text, e))
    continue
  for label, f in [("get", lambda: l.get(fn)), ("str", lambda: str(l)),
                   ("validate", lambda: l.validate())]:
    try:
      f()
    except gfapy.Error:
      pass
    except Exception as e:
      failures.append("{!r} {}: {!r}".format(text, label, e))

# eager (unsafe) decoding at vlevel 0
for text, version in [("S\tA\tx\t*", "gfa2"), ("C\tA\t+\tB\t+\tx\t*", "gfa1"),
                      ("S\tA\t*\txx:i:x", "gfa1"), ("S\tA\t*\txx:f:x", "gfa1"),
                      ("E\t*\tA+\tB+\tx\t1\t0\t1\t*", "gfa2")]:
  try:
    l = gfapy.Line(text, vlevel=0, version=version)
    str(l)
  except gfapy.Error:
    pass
  except Exception as e:
    failures.append("{!r}: {!r}".format(text, e))

# valid content still decoded
l = gfapy.Line("P\tp\tA+,B-\t*", vlevel=0)
assert [str(x) for x in l.segment_names] == ["A+", "B-"]
assert gfapy.Line("S\tA\t*\txx:B:i,1,2", vlevel=0).xx == [1, 2]

if failures:
  print("\n".join(failures))
  sys.exit(1)
print("ok")
