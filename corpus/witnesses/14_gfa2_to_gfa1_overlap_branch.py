import gfapy
pass
for o1 in "+-":
  for o2 in "+-":
    for cigar in ["1M1D2M", "3M2I1M", "4M", "*" ]:
      link = "L\tA\t{}\tB\t{}\t{}".format(o1, o2, cigar)
      g1 = gfapy.Gfa("S\tA\t*\tLN:i:10\nS\tB\t*\tLN:i:10\n"+link, vlevel=3)
      if cigar == "*":
        continue # no coordinates can be computed without overlap
      g2 = g1.to_gfa2()
      gfapy.Gfa(str(g2), vlevel=3).validate()
      e = g2.edges[0]
      assert str(e.alignment) == cigar, str(e)
      # access to the GFA1 view of the edge
      assert str(e.overlap) == cigar, (link, str(e), str(e.overlap))
      back = g2.to_gfa1()
      assert len(back.dovetails) == 1
      l = back.dovetails[0]
      l.delete("ID")
      assert str(l) == link, (link, str(l))
      assert str(e.alignment) == cigar # unchanged by the conversion
# edge with swapped roles (sid1 is the 'to' segment): the roles in the CIGAR are exchanged
g2 = gfapy.Gfa("S\tA\t10\t*\nS\tB\t10\t*\nE\t*\tA+\tB+\t0\t4\t7\t10$\t1M1D2M", vlevel=3)
l = g2.to_gfa1().dovetails[0]
assert (l.from_name, l.from_orient, l.to_name, l.to_orient) == ("B", "+", "A", "+"), str(l)
assert l.overlap.length_on_reference() == 3 and l.overlap.length_on_query() == 4, str(l)
print("ok")
