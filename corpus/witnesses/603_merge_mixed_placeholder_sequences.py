import gfapy
# merging a chain where some members have a sequence and others only a length

def merged(lines, **kw):
  g = gfapy.Gfa(["\t".join(l.split()) for l in lines])
  g.merge_linear_paths(**kw)
  assert len(g.segments) == 1
  return g.segments[0]

# placeholder in the middle (AttributeError on 'Placeholder'.append)
m = merged(["S F GAGGGGCTCGAT", "S D * LN:i:9", "S E GCCACCGCG",
            "L F - D - 8M", "L D - E - 4M"])
assert gfapy.is_placeholder(m.sequence), m
assert m.LN == 12 + 9 + 9 - 8 - 4, m
assert m.length == 18

# placeholder first (TypeError in str.join)
m = merged(["S D * LN:i:9", "S E GCCACCGCG", "L D + E + 4M"])
assert gfapy.is_placeholder(m.sequence), m
assert m.LN == 14, m

# placeholder last, first member without LN tag: length was lost
m = merged(["S E TGAG", "S C * LN:i:6", "L E + C - 2M"])
assert gfapy.is_placeholder(m.sequence), m
assert m.LN == 8, m

# a member of unknown length: no length, no exception
m = merged(["S E TGAG", "S C *", "S D ACGT", "L E + C + *", "L C + D + *"])
assert gfapy.is_placeholder(m.sequence), m
assert m.LN is None and m.length is None, m

# control: all sequences known
m = merged(["S A ACGTAC", "S B ACTT", "L A + B + 2M"])
assert m.sequence == "ACGTACTT" and m.LN == 8, m
