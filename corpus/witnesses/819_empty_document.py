"""C01: the written form of an empty Gfa (the empty string) is refused as a document: writing is no fixed point."""
import sys, gfapy
g = gfapy.Gfa(version="gfa1")
try:
    h = gfapy.Gfa(str(g))
except gfapy.Error as e:
    print("refused:", type(e).__name__); sys.exit(1)
if str(h) != str(g):
    print(repr(str(h))); sys.exit(1)
print("ok")
