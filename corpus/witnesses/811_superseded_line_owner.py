"""C09/C02: after `U g a b` + `U g c` the first line object is no line of the Gfa, but says so; renaming it drops group g."""
import sys, gfapy
g = gfapy.Gfa(version="gfa2")
p = gfapy.Line("U\tg\ta b")
g.add_line(p); g.add_line("U\tg\tc")
if any(x is p for x in g.lines):
    print("ok (same object kept)"); sys.exit(0)
if p.is_connected():
    print("superseded line still connected"); sys.exit(1)
try:
    p.name = "h"
except gfapy.Error:
    pass
if g.line("g") is None:
    print("group g vanished"); sys.exit(1)
print("ok")
