import gfapy
import sys

failures = []

def expect_error(label, fn, errclass=gfapy.Error):
  try:
    fn()
  except errclass:
    return
  except Exception as e:
    failures.append("{}: raised {} instead of {}".format(
      label, type(e).__module__ + "." + type(e).__name__, "gfapy." + errclass.__name__))
    return
  failures.append("{}: no error raised".format(label))

def check_untouched(label, l):
  if l.tagnames != []:
    failures.append("{}: tag was stored: {}".format(label, l.tagnames))
  try:
    written = str(l)
  except gfapy.Error as e:
    written = repr(e)
  if written != "S\tA\t*":
    failures.append("{}: line changed: {!r}".format(label, written))

# creating a new tag with an invalid value is reported at level 3
for bad in ["a\tb", "a\nb", "", gfapy.NumericArray([1, 2**40])]:
  l = gfapy.Line("S\tA\t*", vlevel=3)
  expect_error("set new tag to {!r}".format(bad), lambda: l.set("nw", bad))
  check_untouched("set new tag to {!r}".format(bad), l)
  if l.get_datatype("nw") is not None:
    failures.append("set new tag to {!r}: datatype was stored: {}".format(
      bad, l.get_datatype("nw")))

# the same using the attribute syntax
l = gfapy.Line("S\tA\t*", vlevel=3)
def assign():
  l.nw = "a\tb"
expect_error("l.nw = 'a\\tb'", assign, gfapy.FormatError)
check_untouched("l.nw = 'a\\tb'", l)

# a datatype declared in advance is used for the validation
l = gfapy.Line("S\tA\t*", vlevel=3)
l.set_datatype("nw", "i")
expect_error("declared i, set 'abc'", lambda: l.set("nw", "abc"))
check_untouched("declared i, set 'abc'", l)
l.set("nw", "12")
if l.nw != 12 or str(l) != "S\tA\t*\tnw:i:12":
  failures.append("declared i, set '12': {!r}".format(str(l)))

# lower levels: reported by validate() and when written at level 2
for vlevel in [0, 1, 2]:
  l = gfapy.Line("S\tA\t*", vlevel=vlevel)
  l.set("nw", "a\tb")
  expect_error("validate vlevel {}".format(vlevel), lambda: l.validate())
  if vlevel >= 2:
    expect_error("field_to_s vlevel {}".format(vlevel),
                 lambda: l.field_to_s("nw"))

# valid new tags are accepted at every level
GOOD = [("ab c", "nw:Z:ab c"), (12, "nw:i:12"), (1.5, "nw:f:1.5"),
        ([1, 2], "nw:B:C,1,2"), ({"a": 1}, 'nw:J:{"a": 1}'),
        (gfapy.ByteArray([1, 255]), "nw:H:01FF"),
        (gfapy.NumericArray([1.0, 2.5]), "nw:B:f,1.0,2.5")]
for value, expected in GOOD:
  for vlevel in [0, 1, 2, 3]:
    l = gfapy.Line("S\tA\t*", vlevel=vlevel)
    try:
      l.set("nw", value)
      l.validate()
      s = str(l)
      assert s == "S\tA\t*\t" + expected, s
      gfapy.Line(s, vlevel=3).validate()
    except Exception as e:
      failures.append("valid value {!r} rejected at vlevel {}: {!r}".format(
        value, vlevel, e))

if failures:
  print("\n".join(failures))
  sys.exit(1)
