"""C05/C18/C20: datatype of a tag after set(tag, None) / delete() and re-assignment."""
import sys, gfapy
bad = 0
g = gfapy.Gfa("S\ta\t*\txx:i:1\nS\tb\t*\tyy:Z:abc")
a = g.segment("a"); a.set("xx", None); a.set("xx", "w3")
if a.get_datatype("xx") != "Z": bad += 1; print("FAIL stale datatype after set(None):", a.get_datatype("xx"))
b = g.segment("b"); b.set("yy", None); b.set("yy", 5)
if str(b) != "S\tb\t*\tyy:i:5": bad += 1; print("FAIL", repr(str(b)))
for lvl in range(4):
    l = gfapy.Line("S\tA\tACGT", vlevel=lvl); l.set("zz", "x"); l.delete("zz"); l.zz = "hello"
    try:
        if l.get("zz") != "hello" or str(l) != "S\tA\tACGT\tzz:Z:hello": bad += 1; print("FAIL level", lvl, str(l))
    except gfapy.Error as e:
        bad += 1; print("FAIL level", lvl, type(e).__name__, e)
c = gfapy.Line("S\t1\t*"); c.xx = 12; c.delete("xx"); c.xx = 1.5; c.xx = 3
if str(c) != "S\t1\t*\txx:f:3": bad += 1; print("FAIL", repr(str(c)))
sys.exit(1 if bad else 0)
