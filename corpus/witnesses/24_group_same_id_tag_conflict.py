import gfapy
pass
for first, second, merged in [("U\tu\tA\txx:i:1\tyy:Z:a", "U\tu\tB\tyy:Z:a\txx:i:2", "U\tu\tA B\txx:i:1\tyy:Z:a\tzz:i:3"),
                              ("O\to\tA+\txx:i:1\tyy:Z:a", "O\to\tB+\tyy:Z:a\txx:i:2", "O\to\tA+ B+\txx:i:1\tyy:Z:a\tzz:i:3")]:
  g = gfapy.Gfa("S\tA\t10\t*\nS\tB\t10\t*\nE\t*\tA+\tB+\t0\t10$\t0\t10$\t*\n"+first, vlevel=3)
  before = str(g)
  refs_b = dict((k, list(v)) for k, v in g.segment("B")._refs.items())
  try:
    g.add_line(second)
  except gfapy.NotUniqueError:
    pass
  else:
    raise AssertionError("contradictory tag accepted")
  assert str(g) == before, str(g)
  name = first.split("\t")[1]
  assert str(g.line(name)) == first, str(g.line(name))
  assert dict((k, list(v)) for k, v in g.segment("B")._refs.items() if v) == dict((k, v) for k, v in refs_b.items() if v)
  g.validate()
  # compatible definitions are still merged, tags of both lines are kept
  g.add_line(second.replace("xx:i:2", "xx:i:1\tzz:i:3"))
  assert sorted(str(g.line(name)).split("\t")) == sorted(merged.split("\t")), str(g.line(name))
  assert str(g.line(name)).split("\t")[2] == merged.split("\t")[2]
  g.validate()
print("ok")
