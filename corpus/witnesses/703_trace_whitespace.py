import gfapy
import sys

failures = []
for aln in ["4,\n2", "4, 2", " 4,2", "4,2 ", "4,+2", "4,-2", "4,2_0", "4,\t2".replace("\t", "\x0b"),
            "4,,2", ",4", "4,"]:
  text = "E\t*\tA+\tB+\t0\t1\t0\t1\t" + aln
  for vl in [1, 2, 3]:
    try:
      gfapy.Line(text, vlevel=vl)
    except (gfapy.FormatError, gfapy.ValueError):
      continue
    except Exception as e:
      failures.append("{!r} vlevel={}: wrong exception {!r}".format(aln, vl, e))
      continue
    failures.append("{!r} vlevel={}: accepted".format(aln, vl))
  try:
    gfapy.Line(text, vlevel=0).validate()
    failures.append("{!r} vlevel=0 validate(): accepted".format(aln))
  except gfapy.Error:
    pass
  try:
    gfapy.Alignment(aln, version="gfa2")
    failures.append("{!r} Alignment(): accepted".format(aln))
  except gfapy.Error:
    pass

# valid traces
l = gfapy.Line("E\t*\tA+\tB+\t0\t1\t0\t1\t4,2,0,12")
assert l.alignment == gfapy.Trace([4, 2, 0, 12]), l.alignment
assert str(l) == "E\t*\tA+\tB+\t0\t1\t0\t1\t4,2,0,12"
assert gfapy.Alignment("7", version="gfa2") == gfapy.Trace([7])

if failures:
  print("\n".join(failures))
  sys.exit(1)
print("ok")
