import gfapy
# GFA2: after merge_linear_paths the outward edges of the merged segment
# must have positions computed for the merged segment

def merged(lines):
  g = gfapy.Gfa(["\t".join(l.split()) for l in lines], version="gfa2")
  g.merge_linear_paths()
  g.validate()
  return g

def edge_strs(g):
  return sorted("\t".join(str(x) for x in
          [e.sid1, e.sid2, e.beg1, e.end1, e.beg2, e.end2, e.alignment])
          for e in g.edges)

# (a) merged segment is longer: the suffix of A_B must be 12..14$
g = merged(["S A 8 *", "S B 8 *", "S E 8 *", "S X 8 *",
            "E * A+ B+ 6 8$ 0 2 2M", "E * B+ E+ 6 8$ 0 2 2M",
            "E * B+ X+ 6 8$ 0 2 2M"])
assert g.segment("A_B").slen == 14
assert edge_strs(g) == ["A_B+\tE+\t12\t14$\t0\t2\t2M",
                        "A_B+\tX+\t12\t14$\t0\t2\t2M"], edge_strs(g)
assert len(g.segment("A_B").dovetails_R) == 2
assert len(g.dovetails) == 2

# (b) reversed end: B- D+ (prefix of B) becomes suffix of B_A
g = merged(["S E 4 *", "S A 8 *", "S B 7 *", "S D 10 *",
            "E * B+ A- 0 6 0 6 6M", "E * E+ D+ 0 2 8 10$ 2M",
            "E * B- D+ 1 7$ 4 10$ 6M"])
sn = [s for s in g.segment_names if "_" in s]
assert len(sn) == 1, sn
m = g.segment(sn[0])
assert m.slen == 9
for e in g.edges:
  assert e.is_dovetail(), str(e)
assert len(m.dovetails) == 1, [str(x) for x in m.dovetails]
e = m.dovetails[0]
assert e.other(m).name == "D"
cc = g.connected_components()
assert len(cc) == 1, cc

# (c) hairpin on the chain end
g = merged(["S A 9 *", "S C 8 *", "E e1 A- C+ 5 9$ 4 8$ *",
            "E e2 C- C+ 0 2 0 2 2M"])
sn = [s for s in g.segment_names if "_" in s]
assert len(sn) == 1, sn
m = g.segment(sn[0])
assert m.slen == 17, m.slen # e1 has no alignment: no cut
e2 = g.line("e2")
assert e2.sid1.name == m.name and e2.sid2.name == m.name
assert e2.is_dovetail()
assert e2.from_end == e2.to_end
ivs = {(str(e2.beg1), str(e2.end1)), (str(e2.beg2), str(e2.end2))}
assert ivs in ({("0", "2")}, {("15", "17$")}), ivs
