"""C03: 'P p1 10-,10+ *' over the hairpin link 'L 10 - 10 + 1M1I2M': the flag in path.links depended on the arrival order."""
import sys, itertools, gfapy
LINES = ["P\tp2\t10-,10+\t1M1I2M", "S\t10\tACGTACGT", "P\tpth\t10-,10+\t*", "P\tp1\t10-,10+\t*", "L\t10\t-\t10\t+\t1M1I2M\tID:Z:l8"]
seen = {}
for perm in itertools.permutations(LINES):
    g = gfapy.Gfa(list(perm))
    key = tuple(sorted((str(p.name), tuple(str(l.line.name) + l.orient for l in p.links)) for p in g.paths))
    seen.setdefault(key, perm)
for k in seen: print(k)
sys.exit(0 if len(seen) == 1 else 1)
