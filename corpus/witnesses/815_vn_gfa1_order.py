"""C13: `H VN:Z:gfa1` is accepted as GFA1 when it comes first, refused (VersionError) after an S line."""
import sys, gfapy
def load(lines):
    try:
        return gfapy.Gfa(lines).version
    except gfapy.Error as e:
        return type(e).__name__
a = load(["H\tVN:Z:gfa1", "S\tA\t*"])
b = load(["S\tA\t*", "H\tVN:Z:gfa1"])
if a != b:
    print(a, b); sys.exit(1)
print("ok", a)
