"""C08: at vlevel 1/2 `line.name = "x\\ty"` (also of a placeholder) raises FormatError after the line was unregistered."""
import sys, gfapy
for vl in (1, 2, 3):
    g = gfapy.Gfa(vlevel=vl, version="gfa2")
    g.add_line("O\to1\tC+ B-"); g.add_line("S\tB\t10\t*")
    for n in ("C", "B", "o1"):
        before = str(g)
        try:
            g.line(n).name = "x\ty"
        except gfapy.Error:
            pass
        try:
            after = str(g)
        except Exception as e:
            after = type(e).__name__
        if after != before:
            print(vl, n, after); sys.exit(1)
print("ok")
