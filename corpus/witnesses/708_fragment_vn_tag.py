import gfapy
import sys

failures = []
for vl in [0, 1, 2, 3]:
  for tag in ["VN:Z:x", "VN:i:12"]:
    t = "F\tA\tr+\t0\t1\t0\t1\t*\t" + tag
    try:
      l = gfapy.Line(t, vlevel=vl)
      if str(l) != t:
        failures.append("{!r} vlevel={}: written as {!r}".format(t, vl, str(l)))
      v = l.get("VN")
      if v != ("x" if tag[3] == "Z" else 12):
        failures.append("{!r} vlevel={}: value {!r}".format(t, vl, v))
      if l.VN != v:
        failures.append("{!r} vlevel={}: l.VN = {!r}".format(t, vl, l.VN))
      l.validate()
    except Exception as e:
      failures.append("{!r} vlevel={}: {!r}".format(t, vl, e))
try:
  l = gfapy.Line("F\tA\tr+\t0\t1\t0\t1\t*")
  l.VN = "1.0"
  l.set("VN", "2.0")
  assert str(l) == "F\tA\tr+\t0\t1\t0\t1\t*\tVN:Z:2.0", str(l)
  g = gfapy.Gfa("S\tA\t4\t*\nF\tA\tr+\t0\t1\t0\t1\t*\tVN:Z:x", vlevel=3)
  assert "F\tA\tr+\t0\t1\t0\t1\t*\tVN:Z:x" in str(g)
except Exception as e:
  failures.append("set VN: {!r}".format(e))
# TS remains predefined with type i
try:
  gfapy.Line("F\tA\tr+\t0\t1\t0\t1\t*\tTS:Z:x")
  failures.append("TS:Z accepted on F line")
except gfapy.Error:
  pass
assert gfapy.Line("F\tA\tr+\t0\t1\t0\t1\t*\tTS:i:10").TS == 10

if failures:
  print("\n".join(failures))
  sys.exit(1)
print("ok")
