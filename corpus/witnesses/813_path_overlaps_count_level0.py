"""C07: `P p a+,b+,c+ 1M` at vlevel 0 raises IndexError."""
import sys, gfapy
g = gfapy.Gfa(version="gfa1", vlevel=0)
try:
    g.add_line("P\tp\ta+,b+,c+\t1M")
except gfapy.Error:
    pass
except Exception as e:
    print("foreign", type(e).__name__); sys.exit(1)
print("ok")
