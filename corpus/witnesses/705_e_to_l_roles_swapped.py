import gfapy
import sys

failures = []

# sid1 is the to-side: only the roles are exchanged, the strands are not
g = gfapy.Gfa(["S\tA\t12\t*", "S\tB\t6\t*",
               "E\te1\tB+\tA+\t0\t4\t9\t12$\t2M1D1M"])
out = g.to_gfa1_s().split("\n")
exp = "L\tA\t+\tB\t+\t2M1I1M\tID:Z:e1"
if exp not in out:
  failures.append("to_gfa1_s: {!r} expected, got {!r}".format(exp, out))
e = g.line("e1")
if str(e.overlap) != "2M1I1M":
  failures.append("edge.overlap: 2M1I1M expected, got {}".format(e.overlap))
if e.to_gfa1_s() != exp:
  failures.append("edge.to_gfa1_s: {!r}".format(e.to_gfa1_s()))

# contained side first
g = gfapy.Gfa(["S\tA\t12\t*", "S\tB\t4\t*",
               "E\tc1\tB+\tA+\t0\t4$\t5\t8\t2M1D1M"])
exp = "C\tA\t+\tB\t+\t5\t2M1I1M\tID:Z:c1"
if exp not in g.to_gfa1_s().split("\n"):
  failures.append("containment: {!r} expected, got {!r}".format(exp, g.to_gfa1_s()))

# sid1 is the from-side: unchanged
g = gfapy.Gfa(["S\tA\t12\t*", "S\tB\t6\t*",
               "E\te1\tA+\tB+\t9\t12$\t0\t4\t2M1I1M"])
if "L\tA\t+\tB\t+\t2M1I1M\tID:Z:e1" not in g.to_gfa1_s().split("\n"):
  failures.append("sid1 from: {!r}".format(g.to_gfa1_s()))

# L -> E -> L is the identity for the four orientation pairs
for o1 in "+-":
  for o2 in "+-":
    l = "L\tA\t{}\tB\t{}\t1M1I2M1D3M".format(o1, o2)
    g1 = gfapy.Gfa(["S\tA\t*\tLN:i:20", "S\tB\t*\tLN:i:20", l])
    g2 = gfapy.Gfa(g1.to_gfa2_s())
    back = [x for x in g2.to_gfa1_s().split("\n") if x[0] == "L"]
    back = ["\t".join(x.split("\t")[:6]) for x in back]
    if back != [l]:
      failures.append("L->E->L {!r}: {!r}".format(l, back))

# E -> L -> E with sid1 as to-side gives the same edge, roles exchanged
for o1 in "+-":
  for o2 in "+-":
    # segment 1 (B) must be the prefix side in orientation o1, A the suffix side
    b1, e1 = ("0", "4") if o1 == "+" else ("2", "6$")
    b2, e2 = ("9", "12$") if o2 == "+" else ("0", "3")
    etext = "E\te1\tB{}\tA{}\t{}\t{}\t{}\t{}\t2M1D1M".format(o1, o2, b1, e1, b2, e2)
    g2 = gfapy.Gfa(["S\tA\t12\t*", "S\tB\t6\t*", etext])
    g1 = gfapy.Gfa(g2.to_gfa1_s())
    g2b = gfapy.Gfa(g1.to_gfa2_s())
    eb = g2b.line("e1")
    exp = "E\te1\tA{}\tB{}\t{}\t{}\t{}\t{}\t2M1I1M".format(o2, o1, b2, e2, b1, e1)
    if str(eb) != exp:
      failures.append("E->L->E {!r}: {!r} expected, got {!r}".format(etext, exp, str(eb)))

if failures:
  print("\n".join(failures))
  sys.exit(1)
print("ok")
